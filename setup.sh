#!/usr/bin/env bash
# Builds /verif/vendor (a cargo directory source merged from the two offline registry caches)
# and pre-builds the simulator variants used by the quick checks. Offline only.
set -euo pipefail
cd "$(dirname "$0")"
export CARGO_NET_OFFLINE=true
VENDOR=/verif/vendor
if [ ! -f "$VENDOR/.complete" ]; then
  rm -rf "$VENDOR"; mkdir -p "$VENDOR"
  for c in "$HOME"/.cargo/registry/cache/*/*.crate; do
    name=$(basename "$c" .crate)
    [ -d "$VENDOR/$name" ] && continue
    tar -xzf "$c" -C "$VENDOR"
    sum=$(sha256sum "$c" | cut -d' ' -f1)
    printf '{"files":{},"package":"%s"}' "$sum" > "$VENDOR/$name/.cargo-checksum.json"
  done
  touch "$VENDOR/.complete"
fi
if [ "${1:-}" != "--no-build" ]; then
  ./check build-quick
fi
