#!/usr/bin/env bash
# usage: [REPLAY=1] check_in_copy.sh <patch-file> <ID> [tier]
# Runs ./check <ID> against a scratch COPY of /repo with <patch-file> applied, using a scratch copy
# of /verif whose paths point at that copy. /repo itself is never touched, so this can run while a
# long check uses /repo. With REPLAY=1 the first replay files are re-executed with the change still
# applied (must reproduce) and again after it is reverted (must not).
# Scratch dirs: /tmp/swverif-copy/{repo,verif} (kept for reuse; remove with
# `git -C /repo worktree remove --force /tmp/swverif-copy/repo; rm -rf /tmp/swverif-copy`).
set -euo pipefail
PATCH=$(readlink -f "$1"); ID=$2; TIER=${3:-quick}
ROOT=/tmp/swverif-copy
mkdir -p $ROOT
if [ ! -d $ROOT/repo ]; then git -C /repo worktree add -q --detach $ROOT/repo HEAD; fi
git -C $ROOT/repo checkout -q --detach "$(git -C /repo rev-parse HEAD)"
git -C $ROOT/repo checkout -q -- . && git -C $ROOT/repo clean -fdq -e target
mkdir -p $ROOT/verif
rsync -a --delete --exclude target --exclude vendor --exclude .git --exclude replays --exclude evidence /verif/ $ROOT/verif/
rm -rf $ROOT/verif/replays $ROOT/verif/evidence
mkdir -p $ROOT/verif/replays $ROOT/verif/evidence
grep -rlE '/repo' $ROOT/verif/swsim/Cargo.toml $ROOT/verif/shadow/*/Cargo.toml $ROOT/verif/swsim/src $ROOT/verif/check | xargs sed -i "s#/repo/#$ROOT/repo/#g; s#\"/repo\"#\"$ROOT/repo\"#g"
( cd $ROOT/repo && (git apply "$PATCH" 2>/dev/null || patch -p1 --fuzz=3 -s --no-backup-if-mismatch < "$PATCH") )
cd $ROOT/verif
VERIF_WORKERS=${VERIF_WORKERS:-6} timeout ${CHECK_TIMEOUT:-1500} ./check "$ID" "$TIER" 2>&1 | grep -E "VIOLATION|KNOWN|class:|detail:|^\[$ID|HARNESS" | cut -c1-400 | head -${LINES_MAX:-8} || true
replays=$(ls $ROOT/verif/replays/*.json 2>/dev/null | head -${REPLAY_MAX:-2} || true)
if [ "${REPLAY:-0}" = "1" ]; then
  for r in $replays; do
    echo "-- replay with the change applied: $(basename $r)"; (./check replay $r 2>/dev/null | grep -E "REPLAY|VIOLATION" | cut -c1-200) || true
  done
fi
git -C $ROOT/repo checkout -q -- . && git -C $ROOT/repo clean -fdq -e target
if [ "${REPLAY:-0}" = "1" ]; then
  for r in $replays; do
    echo "-- replay on the unchanged copy: $(basename $r)"; (./check replay $r 2>/dev/null | grep -E "REPLAY|VIOLATION" | cut -c1-200) || true
  done
fi
