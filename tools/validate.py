#!/usr/bin/env python3
"""Validates MANIFEST.json and every evidence file against the schemas in /root/.vp (uses the tooling venv)."""
import json, glob, sys, jsonschema
ok = True
try:
    jsonschema.validate(json.load(open('/verif/MANIFEST.json')), json.load(open('/root/.vp/MANIFEST.schema.json')))
    print("MANIFEST.json ok")
except Exception as e:
    ok = False; print("MANIFEST.json INVALID:", str(e)[:500])
sch = json.load(open('/root/.vp/EVIDENCE.schema.json'))
for f in sorted(glob.glob('/verif/evidence/*.json')):
    try:
        jsonschema.validate(json.load(open(f)), sch); print(f, "ok")
    except Exception as e:
        ok = False; print(f, "INVALID:", str(e)[:500])
sys.exit(0 if ok else 1)
