#!/usr/bin/env bash
# usage: apply_seed.sh <patch>  — applies a seeded patch to /repo's WORKING TREE only (never the
# index): plain git apply, else patch(1) with fuzz. Undo with: git -C /repo checkout -- . 
set -e
cd /repo
git apply "$1" 2>/dev/null || patch -p1 --fuzz=3 -s --no-backup-if-mismatch < "$1"
