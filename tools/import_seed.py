#!/usr/bin/env python3
"""usage: import_seed.py <ID> <round> <detecting-check> <result text> [<checked_with>]
Copies /tmp/seeded-out/<ID>/{patch.diff,demo*,README.md} into /verif/seeded/<ID>/ and writes meta.json
from the author's meta.json and the confirmation agent's confirm.json."""
import json, os, shutil, subprocess, sys, glob
i, rnd, det, result = sys.argv[1:5]
checked = sys.argv[5] if len(sys.argv) > 5 else f"{det} quick"
src, dst = f"/tmp/seeded-out/{i}", f"/verif/seeded/{i}"
os.makedirs(dst, exist_ok=True)
for f in glob.glob(src + "/*"):
    b = os.path.basename(f)
    if os.path.isfile(f) and (b in ("patch.diff", "README.md") or b.startswith("demo")):
        shutil.copy(f, dst)
m = json.load(open(src + "/meta.json"))
c = json.load(open(src + "/confirm.json"))
head = subprocess.check_output(["git", "-C", "/repo", "rev-parse", "--short", "HEAD"], text=True).strip()
meta = {
    "id": i, "round": int(rnd), "written_against": f"/repo HEAD {head} (tree with the fix: commits)",
    "property": m.get("property", i.split("-")[0]), "summary": m.get("summary"),
    "what_it_needs_to_manifest": m.get("what_it_needs_to_manifest"), "files_touched": m.get("files_touched"),
    "author": "independent sub-agent given only the property text and a scratch worktree",
    "confirmation": {"by": f"second independent sub-agent in a scratch worktree at {head}", "applies": c.get("applies"),
                     "baseline_tests_passed": c.get("tests_passed"), "baseline_tests_failed": c.get("tests_failed"),
                     "demo_fails_with_patch": c.get("demo_fails_with_patch"), "demo_passes_without_patch": c.get("demo_passes_without_patch"),
                     "commands": c.get("commands"), "notes": c.get("notes")},
    "checked_with": checked, "detecting_check": det, "result": result,
    "how_to_rerun": "tools/apply_seed.sh seeded/<id>/patch.diff; ./check <ID> quick; git -C /repo checkout -- .  (or tools/check_in_copy.sh seeded/<id>/patch.diff <ID> while /repo is in use)",
}
json.dump(meta, open(dst + "/meta.json", "w"), indent=1)
print("imported", i)
