//! The channel's view of a message: the serde_json image of a verifier-side value, as a tree of
//! typed positions, plus the fault operations that can be applied at a position.
use crate::rng::Rng;
use serde::{Deserialize, Serialize};
use serde_json::Value;
use starknet_crypto::Felt;

#[derive(Debug, Clone, PartialEq, Eq, PartialOrd, Ord, Serialize, Deserialize)]
#[serde(untagged)]
pub enum Seg {
    Key(String),
    Idx(usize),
}

pub type Path = Vec<Seg>;

pub fn path_str(p: &Path) -> String {
    let mut s = String::new();
    for seg in p {
        match seg {
            Seg::Key(k) => {
                if !s.is_empty() {
                    s.push('.');
                }
                s.push_str(k);
            }
            Seg::Idx(i) => s.push_str(&format!("[{i}]")),
        }
    }
    s
}

/// Path with indices erased: the "position class".
pub fn path_class(p: &Path) -> String {
    let mut s = String::new();
    for seg in p {
        match seg {
            Seg::Key(k) => {
                if !s.is_empty() {
                    s.push('.');
                }
                s.push_str(k);
            }
            Seg::Idx(_) => s.push_str("[]"),
        }
    }
    s
}

pub fn parse_path(s: &str) -> Path {
    let mut p = Vec::new();
    for part in s.split('.') {
        let mut rest = part;
        if let Some(i) = rest.find('[') {
            if i > 0 {
                p.push(Seg::Key(rest[..i].to_string()));
            }
            rest = &rest[i..];
            while let Some(j) = rest.find(']') {
                p.push(Seg::Idx(rest[1..j].parse().expect("index")));
                rest = &rest[j + 1..];
            }
        } else if !rest.is_empty() {
            p.push(Seg::Key(rest.to_string()));
        }
    }
    p
}

pub fn get<'a>(v: &'a Value, p: &Path) -> Option<&'a Value> {
    let mut cur = v;
    for seg in p {
        cur = match seg {
            Seg::Key(k) => cur.get(k)?,
            Seg::Idx(i) => cur.get(*i)?,
        };
    }
    Some(cur)
}

pub fn get_mut<'a>(v: &'a mut Value, p: &Path) -> Option<&'a mut Value> {
    let mut cur = v;
    for seg in p {
        cur = match seg {
            Seg::Key(k) => cur.get_mut(k)?,
            Seg::Idx(i) => cur.get_mut(*i)?,
        };
    }
    Some(cur)
}

#[derive(Debug, Clone, Copy, PartialEq, Eq)]
pub enum LeafKind {
    Felt,
    Num,
}

#[derive(Debug, Clone)]
pub struct Leaf {
    pub path: Path,
    pub kind: LeafKind,
}

/// All scalar positions, in deterministic (sorted-key, index) order.
pub fn leaves(v: &Value) -> Vec<Leaf> {
    let mut out = Vec::new();
    fn rec(v: &Value, p: &mut Path, out: &mut Vec<Leaf>) {
        match v {
            Value::Object(m) => {
                for (k, c) in m {
                    p.push(Seg::Key(k.clone()));
                    rec(c, p, out);
                    p.pop();
                }
            }
            Value::Array(a) => {
                for (i, c) in a.iter().enumerate() {
                    p.push(Seg::Idx(i));
                    rec(c, p, out);
                    p.pop();
                }
            }
            Value::String(_) => out.push(Leaf { path: p.clone(), kind: LeafKind::Felt }),
            Value::Number(_) => out.push(Leaf { path: p.clone(), kind: LeafKind::Num }),
            _ => {}
        }
    }
    rec(v, &mut Vec::new(), &mut out);
    out
}

/// All array positions (path, length).
pub fn vectors(v: &Value) -> Vec<(Path, usize)> {
    let mut out = Vec::new();
    fn rec(v: &Value, p: &mut Path, out: &mut Vec<(Path, usize)>) {
        match v {
            Value::Object(m) => {
                for (k, c) in m {
                    p.push(Seg::Key(k.clone()));
                    rec(c, p, out);
                    p.pop();
                }
            }
            Value::Array(a) => {
                out.push((p.clone(), a.len()));
                for (i, c) in a.iter().enumerate() {
                    p.push(Seg::Idx(i));
                    rec(c, p, out);
                    p.pop();
                }
            }
            _ => {}
        }
    }
    rec(v, &mut Vec::new(), &mut out);
    out
}

pub fn felt_hex(f: &Felt) -> String {
    format!("{:#x}", f)
}

pub fn felt_of(v: &Value) -> Option<Felt> {
    let s = v.as_str()?;
    let digits = s.strip_prefix("0x")?;
    if digits.is_empty() || digits.len() > 64 || !digits.bytes().all(|b| b.is_ascii_hexdigit()) {
        return None;
    }
    Felt::from_hex(s).ok()
}

/// Upper bound of the integer type behind a numeric position (by field name).
pub fn num_max(p: &Path) -> u128 {
    match p.last() {
        Some(Seg::Key(k)) if k == "n_bits" => u8::MAX as u128,
        Some(Seg::Key(k)) if k == "nonce" => u64::MAX as u128,
        _ => usize::MAX as u128,
    }
}

/// One channel fault with fully explicit parameters (what a replay file stores).
#[derive(Debug, Clone, PartialEq, Serialize, Deserialize)]
#[serde(tag = "op")]
pub enum Fault {
    /// Replace the scalar at `path` (a hex string for field elements, a decimal string for ints).
    Set { path: String, value: String },
    /// Delete element `index` of the array at `path`.
    Delete { path: String, index: usize },
    /// Repeat element `index` in place.
    Dup { path: String, index: usize },
    /// Swap two elements.
    Swap { path: String, i: usize, j: usize },
    /// Cut the array to `len` elements.
    Truncate { path: String, len: usize },
    /// Append a copy of the last element (or the given scalar if the array is empty).
    Append { path: String, value: Option<String> },
    /// Insert `value` at `index`.
    Insert { path: String, index: usize, value: String },
    /// Remove a key of an object (e.g. `dynamic_params`).
    RemoveKey { path: String },
}

impl Fault {
    pub fn kind(&self) -> &'static str {
        match self {
            Fault::Set { .. } => "set",
            Fault::Delete { .. } => "delete",
            Fault::Dup { .. } => "dup",
            Fault::Swap { .. } => "swap",
            Fault::Truncate { .. } => "truncate",
            Fault::Append { .. } => "append",
            Fault::Insert { .. } => "insert",
            Fault::RemoveKey { .. } => "remove_key",
        }
    }
    pub fn path(&self) -> &str {
        match self {
            Fault::Set { path, .. }
            | Fault::Delete { path, .. }
            | Fault::Dup { path, .. }
            | Fault::Swap { path, .. }
            | Fault::Truncate { path, .. }
            | Fault::Append { path, .. }
            | Fault::Insert { path, .. }
            | Fault::RemoveKey { path } => path,
        }
    }
    pub fn class(&self) -> String {
        format!("{}@{}", self.kind(), path_class(&parse_path(self.path())))
    }
}

fn scalar_like(old: &Value, value: &str) -> Result<Value, String> {
    match old {
        Value::String(_) => Ok(Value::String(value.to_string())),
        Value::Number(_) => {
            let n: u64 = value.parse().map_err(|_| format!("not a u64: {value}"))?;
            Ok(Value::Number(n.into()))
        }
        _ => Err("not a scalar position".into()),
    }
}

/// Applies `f` to `v`. Returns Ok(true) if the image changed, Ok(false) if the fault was a no-op
/// (same value), Err if the position does not exist / is of the wrong shape.
pub fn apply(v: &mut Value, f: &Fault) -> Result<bool, String> {
    match f {
        Fault::Set { path, value } => {
            let p = parse_path(path);
            let slot = get_mut(v, &p).ok_or_else(|| format!("no such position {path}"))?;
            let new = scalar_like(slot, value)?;
            let changed = match (&*slot, &new) {
                (Value::String(a), Value::String(b)) => {
                    match (Felt::from_hex(a), Felt::from_hex(b)) {
                        (Ok(x), Ok(y)) => x != y,
                        _ => a != b,
                    }
                }
                (a, b) => a != b,
            };
            *slot = new;
            Ok(changed)
        }
        Fault::Delete { path, index } => {
            let a = arr(v, path)?;
            if *index >= a.len() {
                return Err("index out of range".into());
            }
            a.remove(*index);
            Ok(true)
        }
        Fault::Dup { path, index } => {
            let a = arr(v, path)?;
            if *index >= a.len() {
                return Err("index out of range".into());
            }
            let c = a[*index].clone();
            a.insert(*index, c);
            Ok(true)
        }
        Fault::Swap { path, i, j } => {
            let a = arr(v, path)?;
            if *i >= a.len() || *j >= a.len() {
                return Err("index out of range".into());
            }
            let changed = a[*i] != a[*j];
            a.swap(*i, *j);
            Ok(changed)
        }
        Fault::Truncate { path, len } => {
            let a = arr(v, path)?;
            if *len >= a.len() {
                return Ok(false);
            }
            a.truncate(*len);
            Ok(true)
        }
        Fault::Append { path, value } => {
            let a = arr(v, path)?;
            let item = match (a.last(), value) {
                (_, Some(s)) => match a.last() {
                    Some(l) => scalar_like(l, s)?,
                    None => Value::String(s.clone()),
                },
                (Some(l), None) => l.clone(),
                (None, None) => return Err("cannot append to empty array without a value".into()),
            };
            a.push(item);
            Ok(true)
        }
        Fault::Insert { path, index, value } => {
            let a = arr(v, path)?;
            if *index > a.len() {
                return Err("index out of range".into());
            }
            let item = match a.first() {
                Some(l) => scalar_like(l, value)?,
                None => Value::String(value.clone()),
            };
            a.insert(*index, item);
            Ok(true)
        }
        Fault::RemoveKey { path } => {
            let mut p = parse_path(path);
            let last = p.pop().ok_or("empty path")?;
            let parent = get_mut(v, &p).ok_or("no parent")?;
            match (parent, last) {
                (Value::Object(m), Seg::Key(k)) => Ok(m.remove(&k).is_some()),
                _ => Err("not an object key".into()),
            }
        }
    }
}

fn arr<'a>(v: &'a mut Value, path: &str) -> Result<&'a mut Vec<Value>, String> {
    let p = parse_path(path);
    get_mut(v, &p)
        .and_then(|x| x.as_array_mut())
        .ok_or_else(|| format!("no array at {path}"))
}

/// Replacement values for a field-element position (all different from `old`).
pub fn felt_replacements(old: &Felt, rng: &mut Rng) -> Vec<(&'static str, Felt)> {
    let mut bit = old.to_bytes_be();
    let i = rng.usize_below(251);
    bit[31 - i / 8] ^= 1 << (i % 8);
    let flipped = Felt::from_bytes_be(&bit);
    let mut v = vec![
        ("plus1", *old + Felt::ONE),
        ("minus1", *old - Felt::ONE),
        ("random", rng.felt()),
        ("bitflip", flipped),
        ("zero", Felt::ZERO),
        ("one", Felt::ONE),
        ("pminus1", Felt::ZERO - Felt::ONE),
    ];
    v.retain(|(_, f)| f != old);
    v
}

/// Replacement values for an integer position with maximum `max`.
pub fn num_replacements(old: u128, max: u128, rng: &mut Rng) -> Vec<(&'static str, u128)> {
    let mut v = Vec::new();
    if old < max {
        v.push(("plus1", old + 1));
    }
    if old > 0 {
        v.push(("minus1", old - 1));
    }
    let r = (rng.next_u64() as u128) % (max + 1).min(u64::MAX as u128);
    v.push(("random", r));
    v.push(("max", max.min(u64::MAX as u128)));
    v.push(("zero", 0));
    v.retain(|(_, x)| *x != old);
    v.dedup_by(|a, b| a.1 == b.1);
    v
}
