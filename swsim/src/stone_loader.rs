//! Independent loader for Stone prover output (the recorded channel).
//!
//! Does not use the repository's parser: prover->verifier messages are cut out of `proof_hex` by
//! the byte ranges of the `P->V[a:b]` annotation lines and decoded by message class (plain string
//! matching, no regex); the configuration is derived from `proof_parameters`/`public_input`; the
//! `V->P` lines are kept as the prover's log of the verifier's challenges.
use serde_json::Value;
use starknet_crypto::Felt;
use swiftness_air::dynamic::DynamicParams;
use swiftness_air::public_memory::PublicInput;
use swiftness_air::trace;
use swiftness_air::types::{AddrValue, Page, SegmentInfo};
use swiftness_commitment::{table, vector};
use swiftness_stark::config::StarkConfig;
use swiftness_stark::types::{StarkProof, StarkUnsentCommitment, StarkWitness};

/// 2^-256 mod p: converts a Montgomery-form residue (as found in `proof_hex` for single field
/// elements) back to the value.
fn mont_r_inv() -> Felt {
    // R = 2^256 mod p
    let r = Felt::TWO.pow(256u32);
    r.inverse().unwrap()
}

pub const BUILTIN_ORDER: [&str; 13] = [
    "program", "execution", "output", "pedersen", "range_check", "ecdsa", "bitwise", "ec_op",
    "keccak", "poseidon", "range_check96", "add_mod", "mul_mod",
];

/// (original columns, interaction columns) per static layout, from the Cairo AIR definitions.
pub fn layout_columns(layout: &str) -> Option<(u64, u64)> {
    Some(match layout {
        "recursive" => (7, 3),
        "starknet" => (9, 1),
        "small" => (23, 2),
        "recursive_with_poseidon" => (6, 2),
        "starknet_with_keccak" => (12, 3),
        "dex" => (21, 1),
        _ => return None,
    })
}

#[derive(Debug, Clone)]
pub struct RecordedChallenges {
    pub interaction_elements: Vec<Felt>,
    pub constraint_alpha: Option<Felt>,
    pub oods_point: Option<Felt>,
    pub oods_alpha: Option<Felt>,
    pub fri_eval_points: Vec<Felt>,
    pub query_indices: Vec<u64>,
}

#[derive(Debug, Clone)]
pub struct Loaded {
    pub file: String,
    pub layout: String,
    pub stone6: bool,
    pub commitment_hash: String,
    pub pow_hash: String,
    pub proof: Value, // serde image of StarkProof (so a Loaded is cheap to clone & mutate)
    pub challenges: RecordedChallenges,
    /// Heap indices of the `For node N` lines per table, in stream order (trace0, trace1, trace2,
    /// fri layers...). Used to validate the reference Merkle model against recorded data.
    pub auth_nodes: Vec<(String, Vec<u64>)>,
    /// Row numbers per table in stream order (deduplicated, ascending as sent).
    pub rows: Vec<(String, Vec<u64>)>,
}

fn err<T>(s: impl Into<String>) -> Result<T, String> {
    Err(s.into())
}

fn hex_felt(s: &str) -> Result<Felt, String> {
    // validate here: the field library's own parser panics on some malformed strings
    let t = s.trim();
    let digits = t.strip_prefix("0x").ok_or_else(|| format!("inconsistent: value without 0x prefix: {s}"))?;
    if digits.is_empty() || digits.len() > 64 || !digits.bytes().all(|b| b.is_ascii_hexdigit()) {
        return Err(format!("bad hex {s}"));
    }
    Felt::from_hex(t).map_err(|e| format!("bad hex {s}: {e:?}"))
}

fn u64_of(v: &Value, what: &str) -> Result<u64, String> {
    v.as_u64().ok_or_else(|| format!("{what}: not a u64: {v}"))
}

fn log2_exact(x: u64, what: &str) -> Result<u64, String> {
    if x == 0 || x & (x - 1) != 0 {
        return err(format!("{what}: {x} is not a power of two"));
    }
    Ok(x.trailing_zeros() as u64)
}

/// Text between the last '(' and the final ')' of an annotation.
fn paren_payload(line: &str) -> Option<&str> {
    let i = line.find('(')?;
    let j = line.rfind(')')?;
    if j <= i {
        return None;
    }
    Some(&line[i + 1..j])
}

struct PvLine<'a> {
    a: usize,
    b: usize,
    topic: &'a str, // between "/cpu air/" and the first ": "
    rest: &'a str,  // after the topic
}

fn parse_pv(line: &str) -> Option<PvLine<'_>> {
    let s = line.strip_prefix("P->V[")?;
    let close = s.find("]: ")?;
    let (range, tail) = (&s[..close], &s[close + 3..]);
    let mut it = range.split(':');
    let (ta, tb) = (it.next()?, it.next()?);
    if !canonical_number(ta) || !canonical_number(tb) {
        return None;
    }
    let a: usize = ta.parse().ok()?;
    let b: usize = tb.parse().ok()?;
    if it.next().is_some() {
        return None;
    }
    let tail = tail.strip_prefix("/cpu air/")?;
    let k = tail.find(": ")?;
    Some(PvLine { a, b, topic: &tail[..k], rest: &tail[k + 2..] })
}

fn canonical_number(t: &str) -> bool {
    !t.is_empty() && t.bytes().all(|b| b.is_ascii_digit()) && (t.len() == 1 || !t.starts_with('0'))
}

fn parse_number_after<'a>(s: &'a str, key: &str) -> Option<u64> {
    let i = s.find(key)? + key.len();
    let t = &s[i..];
    let end = t.find(|c: char| !c.is_ascii_digit()).unwrap_or(t.len());
    if !canonical_number(&t[..end]) {
        return None;
    }
    t[..end].parse().ok()
}

pub fn load_file(path: &str) -> Result<Loaded, String> {
    let text = std::fs::read_to_string(path).map_err(|e| format!("{path}: {e}"))?;
    load_str(&text, path)
}

pub fn load_str(text: &str, name: &str) -> Result<Loaded, String> {
    let doc: Value = serde_json::from_str(text).map_err(|e| format!("{name}: {e}"))?;
    load_value(&doc, name)
}

/// How prover messages are read: from `proof_hex` by byte range (the recorded channel; requires
/// the ranges to tile the stream), or from the printed payload of each annotation line (what the
/// file *says*; lenient about missing/duplicated/reordered lines, strict about unparsable values).
#[derive(Clone, Copy, PartialEq, Eq, Debug)]
pub enum Mode {
    Hex,
    Text,
}

pub fn load_value(doc: &Value, name: &str) -> Result<Loaded, String> {
    load_value_mode(doc, name, Mode::Hex)
}

pub fn load_value_mode(doc: &Value, name: &str, mode: Mode) -> Result<Loaded, String> {
    let pp = doc.get("proof_parameters").ok_or("no proof_parameters")?;
    let pi = doc.get("public_input").ok_or("no public_input")?;
    let stark = pp.get("stark").ok_or("no stark")?;
    let fri = stark.get("fri").ok_or("no fri")?;
    let layout = pi.get("layout").and_then(|v| v.as_str()).ok_or("no layout")?.to_string();
    let n_friendly = match pp.get("n_verifier_friendly_commitment_layers") {
        Some(v) => u64_of(v, "n_verifier_friendly_commitment_layers")?,
        None => 0,
    };
    let commitment_hash =
        pp.get("commitment_hash").and_then(|v| v.as_str()).unwrap_or("").to_string();
    let pow_hash = pp.get("pow_hash").and_then(|v| v.as_str()).unwrap_or("").to_string();
    let version = doc.get("version");
    let _ = version;

    // ---- public input -------------------------------------------------------------------
    let dynamic_params: Option<DynamicParams> = match pi.get("dynamic_params") {
        None | Some(Value::Null) => None,
        Some(v) => {
            // The file names parameters with a double underscore between component and member
            // ("add_mod__a0_suboffset"); the verifier's struct uses single underscores. Map by
            // NAME (never by position), so that field order cannot matter.
            let obj = v.as_object().ok_or("dynamic_params is not an object")?;
            let mut renamed = serde_json::Map::new();
            for (k, x) in obj {
                let name = k.replace("__", "_");
                if renamed.insert(name.clone(), x.clone()).is_some() {
                    return err(format!("dynamic_params: two keys map to {name}"));
                }
            }
            Some(
                serde_json::from_value::<DynamicParams>(Value::Object(renamed))
                    .map_err(|e| format!("dynamic_params: {e}"))?,
            )
        }
    };
    let n_steps = u64_of(pi.get("n_steps").ok_or("no n_steps")?, "n_steps")?;
    let log_n_steps = log2_exact(n_steps, "n_steps")?;
    let cpu_component_step = dynamic_params.as_ref().map(|d| d.cpu_component_step as u64).unwrap_or(1);
    let log_trace = log2_exact(
        16u64.checked_mul(cpu_component_step).and_then(|x| x.checked_mul(n_steps)).ok_or("trace length overflow")?,
        "trace length",
    )?;
    let (cols1, cols2) = match (&dynamic_params, layout_columns(&layout)) {
        (Some(d), _) => (d.num_columns_first as u64, d.num_columns_second as u64),
        (None, Some(c)) => c,
        (None, None) if layout == "plain" => return err("inconsistent: layout plain has no verifier build"),
        (None, None) => return err(format!("unknown layout {layout}")),
    };
    let segs = pi.get("memory_segments").and_then(|v| v.as_object()).ok_or("no memory_segments")?;
    for k in segs.keys() {
        if !BUILTIN_ORDER.contains(&k.as_str()) {
            return err(format!("unknown segment name {k}"));
        }
    }
    let mut segments = Vec::new();
    for b in BUILTIN_ORDER {
        if let Some(s) = segs.get(b) {
            segments.push(SegmentInfo {
                begin_addr: Felt::from(u64_of(s.get("begin_addr").ok_or("no begin_addr")?, "begin_addr")?),
                stop_ptr: Felt::from(u64_of(s.get("stop_ptr").ok_or("no stop_ptr")?, "stop_ptr")?),
            });
        }
    }
    let mem = pi.get("public_memory").and_then(|v| v.as_array()).ok_or("no public_memory")?;
    let mut main_page = Vec::new();
    let mut first_cell: Option<AddrValue> = None;
    for m in mem {
        let page = u64_of(m.get("page").ok_or("no page")?, "page")?;
        let cell = AddrValue {
            address: Felt::from(u64_of(m.get("address").ok_or("no address")?, "address")?),
            value: hex_felt(m.get("value").and_then(|v| v.as_str()).ok_or("no value")?)?,
        };
        if first_cell.is_none() {
            // the padding cell is the first public-memory entry of the file, whatever its page
            first_cell = Some(AddrValue { address: cell.address, value: cell.value });
        }
        if page != 0 {
            if mode == Mode::Hex {
                return err("continuous pages are not supported by this loader");
            }
            // text mode: cells of continuous pages are not part of the main page; their headers
            // are not modelled (the CLI conversion passes none to the verifier)
            continue;
        }
        main_page.push(cell);
    }
    let first = first_cell.ok_or("empty public memory")?;
    let public_input = PublicInput {
        log_n_steps: Felt::from(log_n_steps),
        range_check_min: Felt::from(u64_of(pi.get("rc_min").ok_or("no rc_min")?, "rc_min")?),
        range_check_max: Felt::from(u64_of(pi.get("rc_max").ok_or("no rc_max")?, "rc_max")?),
        layout: Felt::from_bytes_be_slice(layout.as_bytes()),
        dynamic_params,
        segments,
        padding_addr: first.address,
        padding_value: first.value,
        main_page: Page(main_page),
        continuous_page_headers: vec![],
    };

    // ---- configuration ------------------------------------------------------------------
    let log_n_cosets = u64_of(stark.get("log_n_cosets").ok_or("no log_n_cosets")?, "log_n_cosets")?;
    let log_eval = log_trace + log_n_cosets;
    let steps: Vec<u64> = fri
        .get("fri_step_list")
        .and_then(|v| v.as_array())
        .ok_or("no fri_step_list")?
        .iter()
        .map(|x| u64_of(x, "fri step"))
        .collect::<Result<_, _>>()?;
    if steps.is_empty() {
        return err("empty fri_step_list");
    }
    let last_bound = u64_of(fri.get("last_layer_degree_bound").ok_or("no last_layer_degree_bound")?, "last_layer_degree_bound")?;
    let n_queries = u64_of(fri.get("n_queries").ok_or("no n_queries")?, "n_queries")?;
    let pow_bits = u64_of(fri.get("proof_of_work_bits").ok_or("no proof_of_work_bits")?, "proof_of_work_bits")?;
    if pow_bits > 255 {
        return err("proof_of_work_bits does not fit u8");
    }
    let vcfg = |height: u64| vector::config::Config {
        height: Felt::from(height),
        n_verifier_friendly_commitment_layers: Felt::from(n_friendly),
    };
    let tcfg = |cols: u64, height: u64| table::config::Config { n_columns: Felt::from(cols), vector: vcfg(height) };
    let mut inner_layers = Vec::new();
    let mut h = log_eval.checked_sub(steps[0]).ok_or("fri steps exceed domain")?;
    for s in &steps[1..] {
        if *s > 63 {
            return err("fri step too large");
        }
        h = h.checked_sub(*s).ok_or("fri steps exceed domain")?;
        inner_layers.push(tcfg(1u64 << s, h));
    }
    let config = StarkConfig {
        traces: trace::config::Config { original: tcfg(cols1, log_eval), interaction: tcfg(cols2, log_eval) },
        composition: tcfg(2, log_eval),
        fri: swiftness_fri::config::Config {
            log_input_size: Felt::from(log_eval),
            n_layers: Felt::from(steps.len() as u64),
            inner_layers,
            fri_step_sizes: steps.iter().map(|s| Felt::from(*s)).collect(),
            log_last_layer_degree_bound: Felt::from(log2_exact(last_bound, "last_layer_degree_bound")?),
        },
        proof_of_work: swiftness_pow::config::Config { n_bits: pow_bits as u8 },
        log_trace_domain_size: Felt::from(log_trace),
        n_queries: Felt::from(n_queries),
        log_n_cosets: Felt::from(log_n_cosets),
        n_verifier_friendly_commitment_layers: Felt::from(n_friendly),
    };

    // ---- the recorded stream --------------------------------------------------------------
    let hex = if mode == Mode::Hex { doc.get("proof_hex").and_then(|v| v.as_str()).ok_or("no proof_hex")? } else { "" };
    let hex = hex.strip_prefix("0x").unwrap_or(hex);
    if hex.len() % 2 != 0 {
        return err("odd proof_hex length");
    }
    let mut bytes = Vec::with_capacity(hex.len() / 2);
    for i in (0..hex.len()).step_by(2) {
        bytes.push(u8::from_str_radix(&hex[i..i + 2], 16).map_err(|_| "bad proof_hex digit")?);
    }
    let annotations = doc.get("annotations").and_then(|v| v.as_array()).ok_or("no annotations")?;
    let rinv = mont_r_inv();
    let chunk = |a: usize, b: usize| -> Result<&[u8], String> {
        if a > b || b > bytes.len() {
            return err(format!("range [{a}:{b}] outside proof_hex ({} bytes)", bytes.len()));
        }
        Ok(&bytes[a..b])
    };
    let raw32 = |c: &[u8]| -> Result<Felt, String> {
        if c.len() != 32 {
            return err(format!("expected 32 bytes, got {}", c.len()));
        }
        Ok(Felt::from_bytes_be_slice(c))
    };

    let mut original = None;
    let mut interaction = None;
    let mut composition = None;
    let mut oods_values: Vec<Felt> = Vec::new();
    let mut fri_roots: Vec<Felt> = Vec::new();
    let mut last_layer: Vec<Felt> = Vec::new();
    let mut nonce: Option<u64> = None;
    let n_tables = 3 + steps.len() - 1;
    let mut leaves: Vec<Vec<Felt>> = vec![Vec::new(); n_tables];
    let mut auths: Vec<Vec<Felt>> = vec![Vec::new(); n_tables];
    let mut auth_nodes: Vec<Vec<u64>> = vec![Vec::new(); n_tables];
    let mut rows: Vec<Vec<u64>> = vec![Vec::new(); n_tables];
    let mut ch = RecordedChallenges {
        interaction_elements: vec![],
        constraint_alpha: None,
        oods_point: None,
        oods_alpha: None,
        fri_eval_points: vec![],
        query_indices: vec![],
    };
    let mut cursor = 0usize;

    for line in annotations {
        let line = line.as_str().ok_or("annotation is not a string")?;
        if let Some(v) = line.strip_prefix("V->P: /cpu air/") {
            // the prover's log of the verifier's challenges is not part of the proof: a damaged
            // line is skipped (it then simply fails the comparisons that use it)
            let payload = paren_payload(v);
            let f = payload.and_then(|p| hex_felt(p).ok());
            if v.starts_with("STARK/Interaction: Interaction element #") {
                if let Some(x) = f {
                    ch.interaction_elements.push(x);
                }
            } else if v.starts_with("STARK/Original: Constraint polynomial random element") {
                ch.constraint_alpha = f;
            } else if v.starts_with("STARK/Out Of Domain Sampling/OODS values: Evaluation point") {
                ch.oods_point = f;
            } else if v.starts_with("STARK/Out Of Domain Sampling: Constraint polynomial random element") {
                ch.oods_alpha = f;
            } else if v.starts_with("STARK/FRI/Commitment/Layer ") && v.contains("Evaluation point") {
                if let Some(x) = f {
                    ch.fri_eval_points.push(x);
                }
            } else if v.starts_with("STARK/FRI/QueryIndices") {
                if let Some(q) = payload.and_then(|p| p.trim().parse().ok()) {
                    ch.query_indices.push(q);
                }
            }
            continue;
        }
        let Some(pv) = parse_pv(line) else {
            if line.trim_start().starts_with("P->V") || line.contains("P->V[") {
                return err(format!("unparsable prover message line: {}", &line[..line.len().min(80)]));
            }
            continue;
        };
        // every prover message must have its canonical shape: a line that is part of the stream
        // but cannot be classified must not be skipped
        {
            let r = pv.rest;
            let num_then = |s: &str, after: &str| -> bool {
                let end = s.find(|c: char| !c.is_ascii_digit()).unwrap_or(s.len());
                canonical_number(&s[..end]) && s[end..].starts_with(after)
            };
            let row_ok = r.strip_prefix("Row ").map(|x| {
                let end = x.find(|c: char| !c.is_ascii_digit()).unwrap_or(x.len());
                canonical_number(&x[..end]) && x[end..].strip_prefix(", Column ").map(|y| num_then(y, ": Field Element(0x")).unwrap_or(false)
            }).unwrap_or(false);
            let node_ok = r.strip_prefix("For node ").map(|x| num_then(x, ": Hash(0x") || num_then(x, ": Data(0x")).unwrap_or(false);
            let pkg_ok = r.strip_prefix("To complete packages, element #").map(|x| num_then(x, ": Data(0x") || num_then(x, ": Hash(0x")).unwrap_or(false);
            let ok = r.ends_with(')')
                && (r.starts_with("Commitment: Hash(0x") || r.starts_with(": Field Elements(0x") || r.starts_with("Coefficients: Field Elements(0x") || r.starts_with("POW: Data(0x") || row_ok || node_ok || pkg_ok);
            if !ok {
                return err(format!("prover message of unknown shape: {}", &r[..r.len().min(60)]));
            }
        }
        let text_bytes: Vec<u8>;
        let c: &[u8] = if mode == Mode::Hex {
            if pv.a != cursor {
                return err(format!("stream gap: expected offset {cursor}, line says {}", pv.a));
            }
            cursor = pv.b;
            chunk(pv.a, pv.b)?
        } else {
            // Text mode: build the bytes the payload denotes. Single field elements are printed as
            // values but travel in Montgomery form, so convert to keep one decoding path below.
            let payload = paren_payload(pv.rest).ok_or_else(|| format!("no payload in: {line}"))?;
            let mut out = Vec::new();
            let is_single_fe = pv.rest.contains(": Field Element(") || pv.rest.starts_with("Field Element(");
            for part in payload.split(',') {
                let v = part.trim();
                let digits = v.strip_prefix("0x").ok_or_else(|| format!("inconsistent: value without 0x prefix: {v}"))?;
                if digits.is_empty() || !digits.chars().all(|ch| ch.is_ascii_hexdigit()) {
                    return err(format!("unparsable value {v}"));
                }
                if digits.trim_start_matches('0').len() > 63 && !(digits.trim_start_matches('0').len() == 64 && false) {
                    // more than 252 bits: cannot be a field element / hash of this protocol
                    return err(format!("value exceeds the field: {v}"));
                }
                let digits = digits.trim_start_matches('0');
                let mut b = [0u8; 32];
                let padded = format!("{:0>64}", digits);
                for i in 0..32 {
                    b[i] = u8::from_str_radix(&padded[2 * i..2 * i + 2], 16).map_err(|_| "bad hex")?;
                }
                if is_single_fe {
                    let val = Felt::from_bytes_be_slice(&b);
                    b = (val * Felt::TWO.pow(256u32)).to_bytes_be();
                }
                out.extend_from_slice(&b);
            }
            text_bytes = out;
            &text_bytes
        };
        let t = pv.topic;
        if t == "STARK/Original/Commit on Trace" {
            let v = raw32(c)?;
            if original.is_some() && original != Some(v) {
                return err("ambiguous: a commitment appears twice with different values");
            }
            original = Some(v);
        } else if t == "STARK/Interaction/Commit on Trace" {
            let v = raw32(c)?;
            if interaction.is_some() && interaction != Some(v) {
                return err("ambiguous: a commitment appears twice with different values");
            }
            interaction = Some(v);
        } else if t == "STARK/Out Of Domain Sampling/Commit on Trace" {
            let v = raw32(c)?;
            if composition.is_some() && composition != Some(v) {
                return err("ambiguous: a commitment appears twice with different values");
            }
            composition = Some(v);
        } else if t == "STARK/Out Of Domain Sampling/OODS values" {
            if c.len() % 32 != 0 {
                return err("OODS block not a multiple of 32 bytes");
            }
            for k in c.chunks(32) {
                oods_values.push(Felt::from_bytes_be_slice(k));
            }
        } else if t == "STARK/FRI/Commitment/Last Layer" {
            if c.len() % 32 != 0 {
                return err("last layer block not a multiple of 32 bytes");
            }
            for k in c.chunks(32) {
                last_layer.push(Felt::from_bytes_be_slice(k));
            }
        } else if let Some(n) = t.strip_prefix("STARK/FRI/Commitment/Layer ") {
            if !canonical_number(n) {
                return err("bad layer number");
            }
            let n: usize = n.parse().map_err(|_| "bad layer number")?;
            if n != fri_roots.len() + 1 {
                return err(if mode == Mode::Hex { "FRI layer commitments out of order" } else { "inconsistent: FRI layer commitments out of order" });
            }
            fri_roots.push(raw32(c)?);
        } else if t == "STARK/FRI/Proof of Work" {
            if c.len() < 8 || c[..c.len() - 8].iter().any(|b| *b != 0) {
                return err("nonce does not fit 64 bits");
            }
            let mut b8 = [0u8; 8];
            b8.copy_from_slice(&c[c.len() - 8..]);
            let v = u64::from_be_bytes(b8);
            if nonce.is_some() && nonce != Some(v) {
                return err("ambiguous: two different nonces");
            }
            nonce = Some(v);
        } else if let Some(d) = t.strip_prefix("STARK/FRI/Decommitment/Layer ") {
            // "0/Virtual Oracle/Trace k" or "<layer>"
            let table = if let Some(tr) = d.strip_prefix("0/Virtual Oracle/Trace ") {
                match (canonical_number(tr), tr.parse::<usize>()) {
                    (true, Ok(k)) if k < 3 => k,
                    _ => return err("bad trace number"),
                }
            } else {
                if !canonical_number(d) {
                    return err("bad decommitment layer");
                }
                let l: usize = d.parse().map_err(|_| "bad decommitment layer")?;
                if l == 0 || l >= steps.len() {
                    return err("inconsistent: decommitment for a layer the parameters do not declare");
                }
                2 + l
            };
            if table >= n_tables {
                return err("inconsistent: decommitment table out of range");
            }
            if pv.rest.starts_with("Row ") {
                let r = parse_number_after(pv.rest, "Row ").ok_or("bad row")?;
                if rows[table].last() != Some(&r) {
                    rows[table].push(r);
                }
                // single field elements travel in Montgomery form
                leaves[table].push(raw32(c)? * rinv);
            } else if pv.rest.starts_with("For node ") {
                auth_nodes[table].push(parse_number_after(pv.rest, "For node ").ok_or("bad node")?);
                auths[table].push(raw32(c)?);
            } else if pv.rest.starts_with("To complete packages, element #") {
                // single-column tables: the unhashed bottom-layer sibling travels as raw data
                let e = parse_number_after(pv.rest, "element #").ok_or("bad element")?;
                let height = if table < 3 { log_eval } else { 0 };
                auth_nodes[table].push((1u64 << height.min(62)) + e);
                auths[table].push(raw32(c)?);
            } else {
                return err(format!("unknown decommitment message: {}", pv.rest));
            }
        } else {
            return err(format!("unknown prover message topic: {t}"));
        }
    }
    if mode == Mode::Hex {
        if cursor != bytes.len() {
            return err(format!("stream not fully consumed: {cursor} of {} bytes", bytes.len()));
        }
        if fri_roots.len() != steps.len() - 1 {
            return err("wrong number of FRI layer commitments");
        }
    }

    let tw = |i: usize| table::types::Witness { vector: vector::types::Witness { authentications: auths[i].clone() } };
    let td = |i: usize| table::types::Decommitment { values: leaves[i].clone() };
    let proof = StarkProof {
        config,
        public_input,
        unsent_commitment: StarkUnsentCommitment {
            traces: trace::UnsentCommitment {
                original: original.ok_or("no original commitment")?,
                interaction: interaction.ok_or("no interaction commitment")?,
            },
            composition: composition.ok_or("no composition commitment")?,
            oods_values,
            fri: swiftness_fri::types::UnsentCommitment { inner_layers: fri_roots, last_layer_coefficients: last_layer },
            proof_of_work: swiftness_pow::pow::UnsentCommitment { nonce: nonce.ok_or("no nonce")? },
        },
        witness: StarkWitness {
            traces_decommitment: trace::Decommitment { original: td(0), interaction: td(1) },
            traces_witness: trace::Witness { original: tw(0), interaction: tw(1) },
            composition_decommitment: td(2),
            composition_witness: tw(2),
            fri_witness: swiftness_fri::types::Witness {
                layers: (3..n_tables)
                    .map(|i| swiftness_fri::types::LayerWitness { leaves: leaves[i].clone(), table_witness: tw(i) })
                    .collect(),
            },
        },
    };
    let names: Vec<String> = (0..n_tables)
        .map(|i| if i < 3 { format!("trace{i}") } else { format!("fri{}", i - 2) })
        .collect();
    Ok(Loaded {
        file: name.to_string(),
        layout,
        stone6: name.contains("stone6"),
        commitment_hash,
        pow_hash,
        proof: serde_json::to_value(&proof).map_err(|e| e.to_string())?,
        challenges: ch,
        auth_nodes: names.iter().cloned().zip(auth_nodes).collect(),
        rows: names.into_iter().zip(rows).collect(),
    })
}

/// The 25 shipped Stone proofs, in a fixed order.
pub fn shipped_proof_paths() -> Vec<String> {
    let mut v = Vec::new();
    for layout in ["dex", "dynamic", "recursive", "recursive_with_poseidon", "small", "starknet", "starknet_with_keccak"] {
        let dir = format!("/repo/examples/proofs/{layout}");
        let mut files: Vec<String> = std::fs::read_dir(&dir)
            .map(|rd| {
                rd.filter_map(|e| e.ok())
                    .map(|e| e.file_name().to_string_lossy().to_string())
                    .filter(|f| f.ends_with("_example_proof.json"))
                    .collect()
            })
            .unwrap_or_default();
        files.sort();
        for f in files {
            v.push(format!("{dir}/{f}"));
        }
    }
    v
}
