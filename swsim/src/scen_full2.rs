//! C11 (configuration predicate), C10 (queries), C08 protocol/recorded level, C09 recorded level.
use crate::common::{replay_envelope, Ctx};
use crate::image::{self, Fault};
use crate::models::{self, RefTranscript};
use crate::monitor::{self, Outcome};
use crate::proofrun;
use crate::rng::Rng;
use crate::scen_proof;
use crate::stone_loader::{self, Loaded};
use num_bigint::BigUint;
use serde_json::{json, Value};
use starknet_crypto::Felt;
use swiftness_air::domains::StarkDomains;
use swiftness_stark::config::StarkConfig;
use swiftness_stark::types::StarkProof;
use swiftness_transcript::transcript::Transcript;
use swiftness_transcript::verif::{self, Event};

fn load_all(ctx: &mut Ctx) -> Vec<Loaded> {
    let mut v = Vec::new();
    for p in stone_loader::shipped_proof_paths() {
        match stone_loader::load_file(&p) {
            Ok(l) => v.push(l),
            Err(e) => ctx.harness_error(&format!("independent loader failed on {p}: {e}")),
        }
    }
    v
}

// ------------------------------------------------------------------------------------------
// C11: the configuration predicate over non-negative integers
// ------------------------------------------------------------------------------------------

fn bu(v: &Value) -> Option<BigUint> {
    match v {
        Value::String(s) => Felt::from_hex(s).ok().map(|f| f.to_biguint()),
        Value::Number(n) => n.as_u64().map(BigUint::from),
        _ => None,
    }
}

/// Ok(()) = valid, Err(reason) = invalid. `cfg` is the serde image of a StarkConfig.
pub fn ref_config(cfg: &Value, security: &BigUint, cols1: u64, cols2: u64) -> Result<(), String> {
    let n = |x: u64| BigUint::from(x);
    let g = |v: &Value, what: &str| bu(v).ok_or(format!("{what}: not a number"));
    let pow = g(&cfg["proof_of_work"]["n_bits"], "pow bits")?;
    if pow < n(20) || pow > n(50) {
        return Err("pow bits outside 20..=50".into());
    }
    let cosets = g(&cfg["log_n_cosets"], "log_n_cosets")?;
    if cosets < n(1) || cosets > n(16) {
        return Err("blow-up exponent outside 1..=16".into());
    }
    let nq = g(&cfg["n_queries"], "n_queries")?;
    if nq < n(1) || nq > n(48) {
        return Err("query count outside 1..=48".into());
    }
    if &nq * &cosets + &pow < *security {
        return Err("insufficient security".into());
    }
    let log_trace = g(&cfg["log_trace_domain_size"], "log_trace")?;
    let nvf = g(&cfg["n_verifier_friendly_commitment_layers"], "nvf")?;
    let log_eval = &log_trace + &cosets;
    if g(&cfg["traces"]["original"]["n_columns"], "cols1")? != n(cols1) || g(&cfg["traces"]["interaction"]["n_columns"], "cols2")? != n(cols2) {
        return Err("trace column counts differ from the layout's".into());
    }
    for (name, t) in [("original", &cfg["traces"]["original"]), ("interaction", &cfg["traces"]["interaction"]), ("composition", &cfg["composition"])] {
        if g(&t["vector"]["height"], "height")? != log_eval {
            return Err(format!("{name} commitment height != trace exponent + blow-up exponent"));
        }
        if g(&t["vector"]["n_verifier_friendly_commitment_layers"], "nvf")? != nvf {
            return Err(format!("{name} commitment friendly-layer count != global"));
        }
    }
    let fri = &cfg["fri"];
    let n_layers = g(&fri["n_layers"], "n_layers")?;
    if n_layers < n(2) || n_layers > n(15) {
        return Err("fri layer count outside 2..=15".into());
    }
    let n_layers: usize = n_layers.try_into().unwrap();
    let steps = fri["fri_step_sizes"].as_array().ok_or("steps")?;
    let inner = fri["inner_layers"].as_array().ok_or("inner")?;
    if steps.len() < n_layers || inner.len() + 1 < n_layers {
        return Err("fewer steps / layer descriptions than layers".into());
    }
    if g(&steps[0], "step0")? != n(0) {
        return Err("first step not 0".into());
    }
    let log_input = g(&fri["log_input_size"], "log_input")?;
    let mut sum = n(0);
    for i in 1..n_layers {
        let s = g(&steps[i], "step")?;
        if s < n(1) || s > n(4) {
            return Err(format!("step {i} outside 1..=4"));
        }
        sum += &s;
        let su: u32 = s.try_into().unwrap();
        let l = &inner[i - 1];
        if g(&l["n_columns"], "cols")? != n(1u64 << su) {
            return Err(format!("layer {i}: columns != 2^step"));
        }
        if sum > log_input {
            return Err(format!("layer {i}: steps exceed the input size"));
        }
        if g(&l["vector"]["height"], "height")? != &log_input - &sum {
            return Err(format!("layer {i}: height does not telescope"));
        }
        if g(&l["vector"]["n_verifier_friendly_commitment_layers"], "nvf")? != nvf {
            return Err(format!("layer {i}: friendly-layer count != global"));
        }
    }
    let bound = g(&fri["log_last_layer_degree_bound"], "bound")?;
    if bound > n(15) {
        return Err("last-layer bound above 2^15".into());
    }
    if &sum + &bound + &cosets != log_input {
        return Err("input size != steps + last bound + blow-up".into());
    }
    if log_input != log_eval {
        return Err("fri input size != evaluation-domain exponent".into());
    }
    Ok(())
}

fn config_validate(cfg_img: &Value, security: Felt, cols1: u64, cols2: u64) -> Option<Outcome> {
    let cfg: StarkConfig = serde_json::from_value(cfg_img.clone()).ok()?;
    Some(monitor::guarded(1_000_000, || cfg.validate(security, Felt::from(cols1), Felt::from(cols2))).outcome)
}

pub fn c11(ctx: &mut Ctx) {
    let scenario = "c11.config";
    let loaded = load_all(ctx);
    // bases: recorded configurations + synthetic valid ones
    let mut bases: Vec<(String, Value, u64, u64)> = Vec::new();
    for l in &loaded {
        let cfg = l.proof["config"].clone();
        let c1 = bu(&cfg["traces"]["original"]["n_columns"]).unwrap().try_into().unwrap();
        let c2 = bu(&cfg["traces"]["interaction"]["n_columns"]).unwrap().try_into().unwrap();
        bases.push((l.file.trim_start_matches("/repo/examples/proofs/").to_string(), cfg, c1, c2));
    }
    let n_syn = if ctx.is_quick() { 300 } else { 3000 };
    for i in 0..n_syn {
        let mut rng = Rng::derive(ctx.seed, "c11.synthetic", i);
        let p = crate::toyprover::ToyParams::draw(&mut rng, false);
        let (c1, c2) = *rng.pick(&[(2u64, 1u64), (7, 3), (9, 1), (23, 2), (6, 2), (12, 3), (21, 1), (128, 1)]);
        let mut cfg = serde_json::to_value(crate::toyprover::config_for(&p, p.n_queries, p.pow_bits)).unwrap();
        cfg["traces"]["original"]["n_columns"] = json!(image::felt_hex(&Felt::from(c1)));
        cfg["traces"]["interaction"]["n_columns"] = json!(image::felt_hex(&Felt::from(c2)));
        // push the numbers towards their bounds
        if rng.chance(1, 3) {
            cfg["proof_of_work"]["n_bits"] = json!(*rng.pick(&[20u64, 21, 49, 50]));
        }
        bases.push((format!("synthetic:{}", p.shape_class()), cfg, c1, c2));
    }
    // boundary-valid configurations: every bound hit from the inside (2 and 15 layers, steps 1 and
    // 4, last bound 0 and 15, blow-up 1 and 16, 1 and 48 queries, 20 and 50 PoW bits)
    for (li, n_layers) in [2u32, 3, 14, 15].iter().enumerate() {
        for (vi, (step, last, blow, nq, pow)) in [(1u32, 0u32, 1u32, 1u64, 20u8), (4, 15, 16, 48, 50), (1, 15, 1, 48, 20), (4, 0, 16, 1, 50)].iter().enumerate() {
            let p = crate::toyprover::ToyParams {
                log_trace: step * (n_layers - 1) + last,
                log_blowup: *blow,
                steps: std::iter::once(0).chain(std::iter::repeat(*step).take((*n_layers - 1) as usize)).collect(),
                log_last: *last,
                n_queries: *nq,
                pow_bits: *pow,
                n_friendly: (li * 7 + vi) as u64,
                seed: 0,
            };
            let cfg = serde_json::to_value(crate::toyprover::config_for(&p, p.n_queries, p.pow_bits)).unwrap();
            bases.push((format!("boundary:{}", p.shape_class()), cfg, 2, 1));
        }
    }
    let mut unit = 0u64;
    for (bi, (name, cfg, c1, c2)) in bases.iter().enumerate() {
        let mut rng = Rng::derive(ctx.seed, scenario, bi as u64);
        let own_security = {
            let nq: u64 = bu(&cfg["n_queries"]).unwrap().try_into().unwrap();
            let lc: u64 = bu(&cfg["log_n_cosets"]).unwrap().try_into().unwrap();
            nq * lc + cfg["proof_of_work"]["n_bits"].as_u64().unwrap()
        };
        // fault lists over the configuration image
        let wrapped = json!({"config": cfg});
        let mut work: Vec<(String, Vec<Fault>)> = vec![("none".into(), vec![])];
        for l in image::leaves(&wrapped) {
            let path = image::path_str(&l.path);
            if path == "config.composition.n_columns" {
                continue; // not stated by the property
            }
            let old = image::get(&wrapped, &l.path).unwrap();
            match old {
                Value::String(s) => {
                    let cur = Felt::from_hex(s).unwrap();
                    let mut vals: Vec<(String, Felt)> = vec![("+1".into(), cur + Felt::ONE), ("-1".into(), cur - Felt::ONE)];
                    for (nm, v) in scen_proof::extreme_felts() {
                        vals.push((nm.to_string(), v));
                    }
                    for b in [2u64, 4, 15, 16, 48, 49, 128, 129] {
                        vals.push((format!("{b}"), Felt::from(b)));
                    }
                    // exponent aliases of the current value: 2^(e + k·ord 2) = 2^e in the field
                    if let Ok(e) = u64::try_from(cur.to_biguint()) {
                        let al = models::exponent_aliases(e);
                        if let (Some(a), Some(b)) = (al.first(), al.last()) {
                            vals.push(("+ord2".into(), *a));
                            vals.push(("+k*ord2".into(), *b));
                        }
                    }
                    for (nm, v) in vals {
                        if v == cur {
                            continue;
                        }
                        let f = Fault::Set { path: path.clone(), value: image::felt_hex(&v) };
                        work.push((format!("{}={nm}", image::path_class(&l.path)), vec![f.clone()]));
                        // Byzantine form: re-declare dependent fields consistently (modulo p)
                        let mut img = wrapped.clone();
                        if image::apply(&mut img, &f).is_ok() {
                            let extra = scen_proof::redeclare(&img);
                            if !extra.is_empty() {
                                let mut fl = vec![f];
                                fl.extend(extra);
                                work.push((format!("{}={nm}+redeclare", image::path_class(&l.path)), fl));
                            }
                        }
                    }
                }
                Value::Number(nn) => {
                    let cur = nn.as_u64().unwrap();
                    for v in [0u64, 1, 19, 20, 21, 49, 50, 51, 255, cur + 1, cur.saturating_sub(1)] {
                        if v != cur && v <= 255 {
                            work.push((format!("{}={v}", image::path_class(&l.path)), vec![Fault::Set { path: path.clone(), value: v.to_string() }]));
                        }
                    }
                }
                _ => {}
            }
        }
        // surplus trailing entries (unused by the verifier) combined with a raised bound: the
        // sum of steps must be taken over the declared layers only
        for k in 1..=4u64 {
            let neg = Felt::ZERO - Felt::from(k);
            let bound = image::felt_of(&cfg["fri"]["log_last_layer_degree_bound"]).unwrap();
            work.push((
                "surplus-step+raised-bound".into(),
                vec![
                    Fault::Append { path: "config.fri.fri_step_sizes".into(), value: Some(image::felt_hex(&neg)) },
                    Fault::Set { path: "config.fri.log_last_layer_degree_bound".into(), value: image::felt_hex(&(bound + Felt::from(k))) },
                ],
            ));
        }
        work.push(("surplus-step".into(), vec![Fault::Append { path: "config.fri.fri_step_sizes".into(), value: Some("0x3".into()) }]));
        // missing trailing entries hidden behind a raised bound: the last k layer descriptions (or
        // the last k steps) cut off while n_layers stays, the last-layer bound raised by the steps
        // that lost their description, so that every size relation over the remaining entries still
        // balances. The declared layer count has no matching data: invalid whatever the sums say.
        {
            let steps: Vec<Felt> = cfg["fri"]["fri_step_sizes"].as_array().map(|a| a.iter().filter_map(image::felt_of).collect()).unwrap_or_default();
            let n_inner = cfg["fri"]["inner_layers"].as_array().map(|a| a.len()).unwrap_or(0);
            let bound = image::felt_of(&cfg["fri"]["log_last_layer_degree_bound"]).unwrap();
            for k in 1..=n_inner.min(3) {
                if steps.len() != n_inner + 1 {
                    break;
                }
                let lost = steps[steps.len() - k..].iter().fold(Felt::ZERO, |a, b| a + *b);
                let raise = Fault::Set { path: "config.fri.log_last_layer_degree_bound".into(), value: image::felt_hex(&(bound + lost)) };
                work.push(("short-inner-layers+raised-bound".into(), vec![Fault::Truncate { path: "config.fri.inner_layers".into(), len: n_inner - k }, raise.clone()]));
                work.push(("short-steps+raised-bound".into(), vec![Fault::Truncate { path: "config.fri.fri_step_sizes".into(), len: steps.len() - k }, raise.clone()]));
                work.push((
                    "short-both+raised-bound".into(),
                    vec![Fault::Truncate { path: "config.fri.inner_layers".into(), len: n_inner - k }, Fault::Truncate { path: "config.fri.fri_step_sizes".into(), len: steps.len() - k }, raise],
                ));
            }
        }
        // a non-zero first FRI step "folded into" the size relations: every size that sits above
        // the first committed layer raised by k, the layer heights kept
        for k in 1..=4u64 {
            let g = |p: &str| image::get(&wrapped, &image::parse_path(p)).and_then(image::felt_of);
            let mut fl = vec![Fault::Set { path: "config.fri.fri_step_sizes[0]".into(), value: image::felt_hex(&Felt::from(k)) }];
            for p in ["config.fri.log_input_size", "config.log_trace_domain_size", "config.traces.original.vector.height", "config.traces.interaction.vector.height", "config.composition.vector.height"] {
                if let Some(v) = g(p) {
                    fl.push(Fault::Set { path: p.into(), value: image::felt_hex(&(v + Felt::from(k))) });
                }
            }
            work.push(("first-step-folded-into-sizes".into(), fl));
        }
        // a zero step inside, otherwise consistent (1 column, repeated height)
        {
            let n_inner = cfg["fri"]["inner_layers"].as_array().map(|a| a.len()).unwrap_or(0);
            if n_inner >= 1 {
                let i = rng.usize_below(n_inner);
                let mut img = wrapped.clone();
                let f = Fault::Set { path: format!("config.fri.fri_step_sizes[{}]", i + 1), value: "0x0".into() };
                if image::apply(&mut img, &f).is_ok() {
                    let mut fl = vec![f];
                    fl.extend(scen_proof::redeclare(&img));
                    work.push(("zero-step+redeclare".into(), fl));
                }
            }
        }
        // one of the two trace commitments inconsistent
        for t in ["original", "interaction"] {
            let h = image::felt_of(&cfg["traces"][t]["vector"]["height"]).unwrap();
            work.push((format!("traces.{t}.height+1"), vec![Fault::Set { path: format!("config.traces.{t}.vector.height"), value: image::felt_hex(&(h + Felt::ONE)) }]));
        }
        // requested security at, below and above the configuration's own level
        let securities: Vec<u64> = vec![own_security, own_security.saturating_sub(1), own_security + 1, 0];
        for (kind, fl) in work {
            let mine = ctx.mine(unit);
            unit += 1;
            if !mine {
                continue;
            }
            let img = if fl.is_empty() { Some(wrapped.clone()) } else { proofrun::apply_faults(&wrapped, &fl) };
            let Some(img) = img else {
                ctx.stats.skip("noop");
                continue;
            };
            for sec in &securities {
                let Some(o) = config_validate(&img["config"], Felt::from(*sec), *c1, *c2) else {
                    ctx.stats.skip("illtyped");
                    continue;
                };
                ctx.stats.evaluations += 1;
                let model = ref_config(&img["config"], &BigUint::from(*sec), *c1, *c2);
                ctx.stats.fired(if kind.contains("redeclare") { "set+redeclare" } else if kind == "none" { "none" } else { "set" });
                ctx.stats.state(format!("{}|{}|{}", kind.split('=').next().unwrap(), if model.is_ok() { "valid" } else { "invalid" }, o.class().split('(').next().unwrap()));
                let bad = match (&model, &o) {
                    (Ok(()), o) if !o.is_accept() => Some(format!("C11|rejected-valid|{}", o.class())),
                    (Err(why), o) if o.is_accept() => Some(format!("C11|accepted-invalid|{}", why.split(':').next_back().unwrap().trim())),
                    _ => None,
                };
                if ctx.stats.samples.len() < 4 && kind != "none" {
                    ctx.stats.sample(json!({"base": name, "fault": kind, "security": sec, "model": format!("{model:?}"), "validate": o.class()}));
                }
                if let Some(class) = bad {
                    let rep = replay_envelope("C11", scenario, &ctx.variant, json!({"call": "config", "config": cfg, "faults": fl, "security": sec, "cols": [c1, c2], "expected_outcome": o.describe()}));
                    ctx.violation(&class, &format!("{name} with {kind}, security {sec}: validate = {}, reference predicate = {model:?}", o.describe()), rep);
                }
            }
        }
    }
}

// ------------------------------------------------------------------------------------------
// C10: queries
// ------------------------------------------------------------------------------------------

/// Drives the commit phase piecewise through the public functions (`traces_commit`,
/// `table_commit`, `fri_commit`, `generate_queries`) WITHOUT the OODS and PoW checks, so that the
/// whole challenge history of a faulted run is observable even where `verify` would stop early.
fn piecewise_events<L: swiftness_air::layout::LayoutTrait>(proof: &StarkProof) -> Vec<Event> {
    verif::start_recording();
    let _ = std::panic::catch_unwind(std::panic::AssertUnwindSafe(|| {
        let digest = proof.public_input.get_hash(proof.config.n_verifier_friendly_commitment_layers);
        let mut t = Transcript::new(digest);
        let _traces = L::traces_commit(&mut t, &proof.unsent_commitment.traces, proof.config.traces.clone());
        let _alpha = t.random_felt_to_prover();
        let _c = swiftness_commitment::table::commit::table_commit(&mut t, proof.unsent_commitment.composition, proof.config.composition.clone());
        let _z = t.random_felt_to_prover();
        t.read_felt_vector_from_prover(&proof.unsent_commitment.oods_values);
        let _beta = t.random_felt_to_prover();
        let _fri = swiftness_fri::fri::fri_commit(&mut t, proof.unsent_commitment.fri.clone(), proof.config.fri.clone());
        t.read_uint64_from_prover(proof.unsent_commitment.proof_of_work.nonce);
        let size = Felt::TWO.pow_felt(&(proof.config.log_trace_domain_size + proof.config.log_n_cosets));
        let _q = swiftness_stark::queries::generate_queries(&mut t, proof.config.n_queries, size);
    }));
    verif::take_events()
}

/// The interaction elements as the verifier will *use* them: the named fields of the value
/// `traces_commit` returns (not the order in which they were drawn).
fn named_interaction_elements<L: swiftness_air::layout::LayoutTrait>(proof: &StarkProof) -> Option<Value>
where
    L::InteractionElements: serde::Serialize,
{
    let r = std::panic::catch_unwind(std::panic::AssertUnwindSafe(|| {
        let digest = proof.public_input.get_hash(proof.config.n_verifier_friendly_commitment_layers);
        let mut t = Transcript::new(digest);
        let traces = L::traces_commit(&mut t, &proof.unsent_commitment.traces, proof.config.traces.clone());
        serde_json::to_value(&traces.interaction_elements).ok()
    }));
    r.ok().flatten()
}

/// Stone's numbering of the interaction elements ("Interaction element #k" in the prover's log).
const INTERACTION_ORDER: [&str; 8] = [
    "memory_multi_column_perm_perm_interaction_elm",
    "memory_multi_column_perm_hash_interaction_elm0",
    "range_check16_perm_interaction_elm",
    "diluted_check_permutation_interaction_elm",
    "diluted_check_interaction_z",
    "diluted_check_interaction_alpha",
    "add_mod_interaction_elm",
    "mul_mod_interaction_elm",
];

/// None = every logged element is handed on under its Stone name; Some(text) = what is wrong.
fn interaction_assignment_problem(layout: &str, image: &Value, logged: &[Felt]) -> Option<Option<String>> {
    let proof: StarkProof = serde_json::from_value(image.clone()).ok()?;
    let Some(Value::Object(named)) = crate::with_layout!(layout, named_interaction_elements, &proof) else { return None };
    let n = logged.len();
    if named.len() != n || n > INTERACTION_ORDER.len() {
        return Some(Some(format!("{} named elements, the prover logged {n}", named.len())));
    }
    for (k, name) in INTERACTION_ORDER.iter().take(n).enumerate() {
        if named.get(*name).and_then(image::felt_of) != Some(logged[k]) {
            return Some(Some(format!("{name} is not the prover's interaction element #{k}")));
        }
    }
    Some(None)
}

fn piecewise(layout: &str, image: &Value) -> Option<Vec<Event>> {
    let proof: StarkProof = serde_json::from_value(image.clone()).ok()?;
    Some(crate::with_layout!(layout, piecewise_events, &proof))
}

fn felt_u64(f: &Felt) -> Option<u64> {
    f.to_biguint().try_into().ok()
}

pub fn c10(ctx: &mut Ctx) {
    let scenario = "c10.queries";
    for p in ["query-collision-before-dedup", "count-at-or-above-domain-size", "adjacent-indices-in-different-cosets", "recorded-query-set-reproduced"] {
        ctx.stats.declare_probe(p);
    }
    let n_inst: u64 = if ctx.is_quick() { 30_000 } else { 400_000 };
    for k in 0..n_inst {
        if !ctx.mine(k) {
            continue;
        }
        ctx.begin_run(scenario, k);
        let mut rng = Rng::derive(ctx.seed, scenario, k);
        let log_d = match rng.below(5) {
            0 => rng.range(1, 4),
            1 => rng.range(5, 12),
            2 => rng.range(22, 64),
            3 => 64,
            _ => rng.range(1, 64),
        } as u32;
        let n = match rng.below(5) {
            0 => 1,
            1 => rng.range(40, 48),
            2 if log_d <= 5 => (1u64 << log_d) + rng.range(0, 8), // counts close to / above the domain size
            _ => rng.range(1, 48),
        };
        let digest = rng.felt();
        let counter = if rng.chance(1, 2) { 0 } else { rng.range(1, 9) };
        let size = models::pow2(log_d as u64);
        let mk = |ctx: &Ctx, what: &str| {
            replay_envelope("C10", scenario, &ctx.variant, json!({"call": "queries", "digest": image::felt_hex(&digest), "counter": counter, "n": n, "log_domain": log_d, "oracle": what}))
        };
        // drawing n <= 56 queries costs n challenges: anything beyond a small multiple is a loop
        // whose bound does not come from n
        let run = monitor::guarded_val(4 * (n + 8), || {
            let mut t = Transcript::new_with_counter(digest, Felt::from(counter));
            let q = swiftness_stark::queries::generate_queries(&mut t, Felt::from(n), size);
            let q2 = swiftness_stark::queries::generate_queries(&mut t, Felt::from(n.min(4)), size);
            (q, q2, *t.digest(), *t.counter())
        });
        ctx.stats.evaluations += 1;
        if !run.outcome.is_accept() {
            ctx.violation(&format!("C10|crash|{}", run.outcome.class()), &format!("generate_queries(n={n}, domain 2^{log_d}): {}", run.outcome.describe()), mk(ctx, "crash"));
            continue;
        }
        verif::reset_ticks(u64::MAX);
        let mut t = Transcript::new_with_counter(digest, Felt::from(counter));
        let q = swiftness_stark::queries::generate_queries(&mut t, Felt::from(n), size);
        let q2 = swiftness_stark::queries::generate_queries(&mut t, Felt::from(n.min(4)), size);
        let mut m = RefTranscript { digest, counter };
        let (raw, want) = models::ref_queries(&mut m, n, log_d);
        let (_, want2) = models::ref_queries(&mut m, n.min(4), log_d);
        if raw.len() != want.len() {
            ctx.stats.probe("query-collision-before-dedup");
        }
        if n >= (1u64 << log_d.min(63)) {
            ctx.stats.probe("count-at-or-above-domain-size");
        }
        ctx.stats.state(format!("d{}|n{}|c{}|coll{}", log_d / 8, n / 8, (counter > 0) as u8, (raw.len() != want.len()) as u8));
        let qs: Vec<BigUint> = q.iter().map(|f| f.to_biguint()).collect();
        let mut problem: Option<(&str, String)> = None;
        if qs.iter().any(|x| *x >= size.to_biguint()) {
            problem = Some(("out-of-range", "an index is >= the domain size".into()));
        } else if qs.windows(2).any(|w| w[0] >= w[1]) {
            problem = Some(("not-strictly-increasing", format!("indices not strictly increasing: {:?}", qs.iter().take(12).collect::<Vec<_>>())));
        } else if qs.len() as u64 > n {
            problem = Some(("too-many", "more indices than the configured count".into()));
        } else if qs != want.iter().map(|x| BigUint::from(*x)).collect::<Vec<_>>() {
            problem = Some(("model-mismatch", format!("indices differ from low-128-bits-mod-size of the next {n} challenges (counter {counter})")));
        } else if q2.iter().map(|f| f.to_biguint()).collect::<Vec<_>>() != want2.iter().map(|x| BigUint::from(*x)).collect::<Vec<_>>() {
            problem = Some(("second-batch", "a second batch drawn from the same transcript is not the next challenges".into()));
        } else if *t.digest() != digest || felt_u64(t.counter()) != Some(counter + n + n.min(4)) {
            problem = Some(("transcript-state", "drawing queries changed the digest or did not advance the counter by the number of draws".into()));
        }
        if let Some((cls, detail)) = problem {
            ctx.violation(&format!("C10|{cls}"), &format!("generate_queries(n={n}, domain 2^{log_d}, counter {counter}): {detail}"), mk(ctx, cls));
            continue;
        }
        // points
        if log_d <= 64 {
            let log_c = rng.range(1, (log_d as u64).min(16).max(1));
            let (lt, lc) = if log_d as u64 > log_c { (log_d as u64 - log_c, log_c) } else { (0, log_d as u64) };
            let dr = monitor::guarded_val(1_000_000, || StarkDomains::new(Felt::from(lt), Felt::from(lc)).eval_domain_size);
            ctx.stats.evaluations += 1;
            if !dr.outcome.is_accept() {
                let rep = replay_envelope("C10", scenario, &ctx.variant, json!({"call": "points", "indices": [0], "log_domain": log_d, "log_cosets": lc, "oracle": "points"}));
                ctx.violation(&format!("C10|points-crash|{}", dr.outcome.class()), &format!("StarkDomains::new({lt}, {lc}) for the domain 2^{log_d}: {}", dr.outcome.describe()), rep);
                continue;
            }
            let dom = StarkDomains::new(Felt::from(lt), Felt::from(lc));
            // the drawn queries, plus all indices for small domains, plus adjacent runs
            let mut idx: Vec<u64> = want.clone();
            if log_d <= 6 {
                idx = (0..(1u64 << log_d)).collect();
            } else {
                let b = if log_d == 64 { rng.next_u64() & !7 } else { rng.below(1u64 << log_d) & !7 };
                idx.extend((0..6).map(|j| b.wrapping_add(j)).filter(|x| log_d == 64 || *x < (1u64 << log_d)));
                idx.sort();
                idx.dedup();
            }
            let qf: Vec<Felt> = idx.iter().map(|x| Felt::from(*x)).collect();
            let pr = monitor::guarded_val(10_000_000, || swiftness_stark::queries::queries_to_points(&qf, &dom));
            ctx.stats.evaluations += 1;
            if !pr.outcome.is_accept() {
                ctx.violation(&format!("C10|points-crash|{}", pr.outcome.class()), &format!("queries_to_points on domain 2^{log_d}: {}", pr.outcome.describe()), mk(ctx, "points-crash"));
                continue;
            }
            let pts = swiftness_stark::queries::queries_to_points(&qf, &dom);
            let w = models::subgroup_generator(log_d);
            for (i, p) in idx.iter().zip(pts.iter()) {
                let want_p = Felt::THREE * w.pow(models::bitrev(*i, log_d) as u128);
                if want_p != *p {
                    let rep = replay_envelope("C10", scenario, &ctx.variant, json!({"call": "points", "indices": idx, "log_domain": log_d, "log_cosets": lc, "oracle": "points"}));
                    ctx.violation("C10|wrong-point", &format!("index {i} of domain 2^{log_d} mapped to {:#x}, expected 3*w^bitrev = {:#x}", p, want_p), rep);
                    break;
                }
            }
            if idx.windows(2).any(|w| w[1] == w[0] + 1 && w[0] % 2 == 1) {
                ctx.stats.probe("adjacent-indices-in-different-cosets");
            }
        }
        if ctx.stats.samples.len() < 3 {
            ctx.stats.sample(json!({"log_domain": log_d, "n": n, "counter": counter, "queries": want.iter().take(8).collect::<Vec<_>>()}));
        }
    }
    // recorded proofs: the verifier's query set equals the set the prover logged
    let loaded = load_all(ctx);
    for (i, l) in loaded.iter().enumerate() {
        if !proofrun::build_matches(l) || !ctx.mine(n_inst + i as u64) {
            continue;
        }
        let sec = proofrun::security_of(&l.proof);
        let got = scen_proof::query_set_of_run(&l.layout, &l.proof, sec);
        let mut logged = l.challenges.query_indices.clone();
        logged.sort();
        logged.dedup();
        ctx.stats.evaluations += 1;
        ctx.stats.state(format!("recorded|{}|{}", l.layout, got.as_ref() == Some(&logged)));
        if got.as_ref() != Some(&logged) {
            let rep = replay_envelope("C10", "c10.recorded", &ctx.variant, json!({"call": "recorded-queries", "file": l.file}));
            ctx.violation("C10|recorded-set-differs", &format!("{}: query set derived by the verifier differs from the prover's log", l.file), rep);
        } else {
            ctx.stats.probe("recorded-query-set-reproduced");
        }
    }
}

// ------------------------------------------------------------------------------------------
// C08 at protocol level: the recorded event history of real verify runs
// ------------------------------------------------------------------------------------------

fn events_of(layout: &str, image: &Value, security: Felt) -> Option<(Vec<Event>, Outcome)> {
    let proof: StarkProof = serde_json::from_value(image.clone()).ok()?;
    verif::start_recording();
    let r = proofrun::run_proof(layout, &proof, security, 50_000_000);
    Some((verif::take_events(), r.outcome))
}

/// The history the protocol prescribes for a proof image (full, as if no check stopped the run).
fn predicted_history(layout: &str, image: &Value, n_interaction: usize) -> Option<Vec<Event>> {
    let proof: StarkProof = serde_json::from_value(image.clone()).ok()?;
    let _ = layout;
    let seed = crate::models_full::ref_digest(&proof.public_input, proof.config.n_verifier_friendly_commitment_layers);
    let mut t = RefTranscript::new(seed);
    let mut ev = vec![Event::New { digest: seed }];
    let mut absorb = |t: &mut RefTranscript, ev: &mut Vec<Event>, vals: &[Felt]| {
        t.absorb(vals);
        ev.push(Event::Absorb { values: vals.to_vec(), digest_after: t.digest });
    };
    let squeeze = |t: &mut RefTranscript, ev: &mut Vec<Event>| {
        let (d, c) = (t.digest, t.counter);
        let out = t.squeeze();
        ev.push(Event::Squeeze { digest: d, counter: Felt::from(c), out });
    };
    let u = &proof.unsent_commitment;
    absorb(&mut t, &mut ev, &[u.traces.original]);
    for _ in 0..n_interaction {
        squeeze(&mut t, &mut ev);
    }
    absorb(&mut t, &mut ev, &[u.traces.interaction]);
    squeeze(&mut t, &mut ev);
    absorb(&mut t, &mut ev, &[u.composition]);
    squeeze(&mut t, &mut ev);
    absorb(&mut t, &mut ev, &u.oods_values);
    squeeze(&mut t, &mut ev);
    let n_inner: usize = felt_u64(&proof.config.fri.n_layers)?.checked_sub(1)? as usize;
    for i in 0..n_inner {
        absorb(&mut t, &mut ev, &[*u.fri.inner_layers.get(i)?]);
        squeeze(&mut t, &mut ev);
    }
    absorb(&mut t, &mut ev, &u.fri.last_layer_coefficients);
    absorb(&mut t, &mut ev, &[Felt::from(u.proof_of_work.nonce)]);
    for _ in 0..felt_u64(&proof.config.n_queries)? {
        squeeze(&mut t, &mut ev);
    }
    Some(ev)
}

pub fn c08(ctx: &mut Ctx) {
    // (a) object level: operation histories on the Transcript API
    crate::scen_core::c08(ctx);
    let scenario = "c08.protocol";
    let n_toy = if ctx.is_quick() { 10 } else { 100 };
    let mut bases = scen_proof::collect_bases(ctx, scenario, n_toy, 0);
    // always one base whose commitments are entirely masked (no verifier-friendly layer): the only
    // configuration in which a commitment root is itself a shortened digest
    {
        let mut rng = Rng::derive(ctx.seed, "c08.protocol.masked-base", 0);
        let mut params = crate::toyprover::ToyParams::draw(&mut rng, true);
        params.n_friendly = 0;
        match crate::toyprover::honest_base(&params) {
            Ok(b) => bases.push(b),
            Err(e) => ctx.harness_error(&format!("toy prover self-check failed: {e} params={params:?}")),
        }
    }
    let loaded = load_all(ctx);
    let base_unit0 = 1_000_000u64;
    for (bi, base) in bases.iter().enumerate() {
        if !ctx.mine(base_unit0 + bi as u64) {
            continue;
        }
        ctx.begin_run(scenario, bi as u64);
        let mut rng = Rng::derive(ctx.seed, scenario, bi as u64);
        let mk = |ctx: &Ctx, faults: &[Fault], what: &str| {
            replay_envelope("C08", scenario, &ctx.variant, json!({"base": base.spec, "layout": base.layout, "faults": faults, "oracle": what, "call": "protocol-history"}))
        };
        let Some((ev, o)) = events_of(&base.layout, &base.image, base.security) else { continue };
        ctx.stats.evaluations += 1;
        if !o.is_accept() {
            ctx.stats.skip("base-not-accepted");
            continue;
        }
        // (b) the recorded history equals the prescribed one
        // number of interaction elements: the squeezes between the first two absorbs
        let first_absorbs: Vec<usize> = ev.iter().enumerate().filter(|(_, e)| matches!(e, Event::Absorb { .. })).map(|(i, _)| i).collect();
        let n_int = first_absorbs.get(1).zip(first_absorbs.first()).map(|(b, a)| b - a - 1).unwrap_or(0);
        // (the number of interaction challenges is layout-specific; it is checked against the
        // prover's own log for recorded runs below, not against a table in the harness)
        let want = predicted_history(&base.layout, &base.image, n_int);
        // the verifier de-duplicates queries but draws exactly n_queries challenges
        if want.as_ref() != Some(&ev) {
            let pos = want.as_ref().map(|w| w.iter().zip(ev.iter()).position(|(a, b)| a != b).unwrap_or(w.len().min(ev.len())));
            ctx.violation("C08|history|differs-from-protocol", &format!("{}: recorded transcript history of the verifier differs from the protocol order at event {:?} (lengths {} vs {:?})", base.name, pos, ev.len(), want.as_ref().map(|w| w.len())), mk(ctx, &[], "history"));
            continue;
        }
        ctx.stats.probe_n("protocol-events-matched", ev.len() as u64);
        ctx.stats.state(format!("{}|history|match", base.layout));
        // (c) recorded: challenges equal the prover's log
        if let Some(l) = loaded.iter().find(|l| l.file.ends_with(&base.name)) {
            let nonce_absorb = first_absorbs[first_absorbs.len() - 1];
            let sq: Vec<Felt> = ev[..nonce_absorb].iter().filter_map(|e| if let Event::Squeeze { out, .. } = e { Some(*out) } else { None }).collect();
            let mut logged: Vec<Felt> = l.challenges.interaction_elements.clone();
            logged.extend(l.challenges.constraint_alpha);
            logged.extend(l.challenges.oods_point);
            logged.extend(l.challenges.oods_alpha);
            logged.extend(l.challenges.fri_eval_points.iter());
            // ... and each element is handed on under the name Stone gives that number
            if let Some(r) = interaction_assignment_problem(&base.layout, &base.image, &l.challenges.interaction_elements) {
                ctx.stats.evaluations += 1;
                match r {
                    Some(b) => ctx.violation("C08|recorded-challenges|interaction-element-assignment", &format!("{}: {b}", base.name), mk(ctx, &[], "interaction-assignment")),
                    None => ctx.stats.probe_n("interaction-elements-matched-by-name", l.challenges.interaction_elements.len() as u64),
                }
            }
            if sq != logged {
                let pos = sq.iter().zip(logged.iter()).position(|(a, b)| a != b);
                ctx.violation("C08|recorded-challenges", &format!("{}: verifier challenges differ from the prover's V->P log at {:?} ({} vs {} challenges)", base.name, pos, sq.len(), logged.len()), mk(ctx, &[], "recorded"));
            } else {
                ctx.stats.probe_n("recorded-challenges-reproduced", sq.len() as u64);
            }
        }
        // (d) every commit-phase message position: prefix unchanged, every later challenge differs
        let mut msgs: Vec<(String, String)> = vec![
            ("original-root".into(), "unsent_commitment.traces.original".into()),
            ("interaction-root".into(), "unsent_commitment.traces.interaction".into()),
            ("composition-root".into(), "unsent_commitment.composition".into()),
        ];
        let n_oods = base.image["unsent_commitment"]["oods_values"].as_array().map(|a| a.len()).unwrap_or(0);
        for i in [0, n_oods / 2, n_oods.saturating_sub(1)] {
            msgs.push(("oods-value".into(), format!("unsent_commitment.oods_values[{i}]")));
        }
        let n_inner = base.image["unsent_commitment"]["fri"]["inner_layers"].as_array().map(|a| a.len()).unwrap_or(0);
        for i in 0..n_inner {
            msgs.push(("fri-root".into(), format!("unsent_commitment.fri.inner_layers[{i}]")));
        }
        let n_last = base.image["unsent_commitment"]["fri"]["last_layer_coefficients"].as_array().map(|a| a.len()).unwrap_or(0);
        if n_last > 0 {
            msgs.push(("last-layer".into(), format!("unsent_commitment.fri.last_layer_coefficients[{}]", rng.usize_below(n_last))));
        }
        // absorb index of each message in protocol order
        let absorb_index = |path: &str| -> usize {
            if path.ends_with("traces.original") {
                0
            } else if path.ends_with("traces.interaction") {
                1
            } else if path.ends_with("composition") {
                2
            } else if path.contains("oods_values") {
                3
            } else if path.contains("inner_layers") {
                let i: usize = path[path.rfind('[').unwrap() + 1..path.len() - 1].parse().unwrap();
                4 + i
            } else {
                4 + n_inner
            }
        };
        // every message once changed in its lowest bit and once only far above the digest width of
        // the masked hashes (bit 200 / bit 249): a channel that absorbs a shortened form of a
        // commitment must not go unnoticed
        let msgs: Vec<(String, String, Felt)> = msgs
            .into_iter()
            .flat_map(|(k, p)| [(k.clone(), p.clone(), Felt::ONE), (format!("{k}-high"), p.clone(), models::pow2(200)), (format!("{k}-high"), p, models::pow2(249))])
            .collect();
        for (kind, path, delta) in msgs {
            let old = image::felt_of(image::get(&base.image, &image::parse_path(&path)).unwrap()).unwrap();
            let fault = Fault::Set { path: path.clone(), value: image::felt_hex(&(old + delta)) };
            let Some(img) = proofrun::apply_faults(&base.image, std::slice::from_ref(&fault)) else { continue };
            let Some((fev, _)) = events_of(&base.layout, &img, base.security) else { continue };
            ctx.stats.evaluations += 1;
            ctx.stats.fired(&kind);
            let a_idx = first_absorbs[absorb_index(&path)];
            // the complete history, driven piecewise past the checks that stop `verify`
            if let (Some(pw_base), Some(pw_fault)) = (piecewise(&base.layout, &base.image), piecewise(&base.layout, &img)) {
                ctx.stats.evaluations += 1;
                if pw_base != ev {
                    ctx.violation("C08|protocol|piecewise-differs-from-verify", &format!("{}: driving the commit phase through the public functions gives another history than verify", base.name), mk(ctx, &[], "history"));
                } else if pw_fault.len() != pw_base.len() || pw_fault[..a_idx] != pw_base[..a_idx] {
                    ctx.violation(&format!("C08|protocol|prefix|{kind}"), &format!("{}: (piecewise) events before the changed message {path} differ", base.name), mk(ctx, std::slice::from_ref(&fault), "message-position"));
                } else {
                    let mut n = 0;
                    for j in a_idx..pw_base.len() {
                        if let (Event::Squeeze { out: a, .. }, Event::Squeeze { out: b, .. }) = (&pw_base[j], &pw_fault[j]) {
                            n += 1;
                            if a == b {
                                ctx.violation(&format!("C08|protocol|suffix|{kind}"), &format!("{}: (piecewise) challenge at event {j} unchanged after changing {path}", base.name), mk(ctx, std::slice::from_ref(&fault), "message-position"));
                                break;
                            }
                        }
                    }
                    ctx.stats.probe_n("later-challenges-compared-piecewise", n);
                }
            }
            let mut problem = None;
            if fev.len() <= a_idx || fev[..a_idx] != ev[..a_idx] {
                problem = Some("prefix: events before the changed message differ".to_string());
            } else {
                let mut compared = 0;
                for j in a_idx..fev.len().min(ev.len()) {
                    if let (Event::Squeeze { out: a, .. }, Event::Squeeze { out: b, .. }) = (&ev[j], &fev[j]) {
                        compared += 1;
                        if a == b {
                            problem = Some(format!("suffix: challenge at event {j} unchanged after changing {path}"));
                            break;
                        }
                    }
                }
                ctx.stats.probe_n("later-challenges-compared", compared);
                if compared == 0 {
                    ctx.stats.probe("faulted-run-stopped-before-next-challenge");
                }
            }
            ctx.stats.state(format!("{}|{kind}|{}", base.layout, problem.is_none()));
            if let Some(p) = problem {
                ctx.violation(&format!("C08|protocol|{}|{kind}", p.split(':').next().unwrap()), &format!("{}: {p}", base.name), mk(ctx, &[fault], "message-position"));
            }
        }
        // surplus trailing entries are not protocol messages: a proof that carries unused extra FRI
        // layer descriptions / commitments / steps must produce exactly the same challenge history
        {
            let mut extra = Vec::new();
            if n_inner >= 1 {
                extra.push(Fault::Append { path: "config.fri.inner_layers".into(), value: None });
                extra.push(Fault::Append { path: "unsent_commitment.fri.inner_layers".into(), value: Some(image::felt_hex(&rng.felt())) });
                extra.push(Fault::Append { path: "config.fri.fri_step_sizes".into(), value: Some("0x1".into()) });
            }
            if let Some(img) = proofrun::apply_faults(&base.image, &extra) {
                if let Some((sev, so)) = events_of(&base.layout, &img, base.security) {
                    ctx.stats.evaluations += 1;
                    ctx.stats.fired("surplus-entries");
                    ctx.stats.state(format!("{}|surplus-entries|{}", base.layout, so.class()));
                    if so.is_accept() && sev != ev {
                        let pos = sev.iter().zip(ev.iter()).position(|(a, b)| a != b);
                        ctx.violation("C08|protocol|surplus-entries-change-history", &format!("{}: unused trailing FRI entries change the transcript history at event {pos:?}", base.name), mk(ctx, &extra, "history"));
                    } else if !so.is_accept() {
                        // rejecting surplus entries is allowed (C02 only tolerates them); but the part of
                        // the history that was produced must still be a prefix of the protocol's
                        let upto = sev.len().min(ev.len());
                        if sev[..upto] != ev[..upto] {
                            let pos = sev.iter().zip(ev.iter()).position(|(a, b)| a != b);
                            ctx.violation("C08|protocol|surplus-entries-change-history", &format!("{}: unused trailing FRI entries change the transcript history at event {pos:?} (run ended with {})", base.name, so.class()), mk(ctx, &extra, "history"));
                        }
                    }
                }
            }
        }
        // later messages do not affect earlier challenges: change the nonce and a witness value
        let nonce = base.image["unsent_commitment"]["proof_of_work"]["nonce"].as_u64().unwrap();
        let fault = Fault::Set { path: "unsent_commitment.proof_of_work.nonce".into(), value: nonce.wrapping_add(1).to_string() };
        if let Some(img) = proofrun::apply_faults(&base.image, std::slice::from_ref(&fault)) {
            if let Some((fev, _)) = events_of(&base.layout, &img, base.security) {
                ctx.stats.evaluations += 1;
                let upto = first_absorbs[first_absorbs.len() - 1].min(fev.len());
                if fev[..upto] != ev[..upto] {
                    ctx.violation("C08|protocol|later-message-affects-earlier-challenge", &format!("{}: changing the nonce changed an earlier event", base.name), mk(ctx, &[fault], "later-message"));
                }
            }
        }
    }
}

// ------------------------------------------------------------------------------------------
// C09 at recorded level: recorded nonces against the bit-level reference, absorb order
// ------------------------------------------------------------------------------------------

pub fn c09(ctx: &mut Ctx) {
    crate::scen_core::c09(ctx);
    // "difficulties outside 20..=50 are rejected by configuration validation": the whole
    // configuration validation, whatever security level the caller asks for
    if ctx.mine(2_500_000) {
        let loaded = load_all(ctx);
        for l in loaded.iter().take(if ctx.is_quick() { 4 } else { 25 }) {
            let cfg = &l.proof["config"];
            let c1: u64 = bu(&cfg["traces"]["original"]["n_columns"]).unwrap().try_into().unwrap();
            let c2: u64 = bu(&cfg["traces"]["interaction"]["n_columns"]).unwrap().try_into().unwrap();
            for n_bits in 0u64..=255 {
                for sec in [0u64, 20, 60] {
                    let mut c = cfg.clone();
                    c["proof_of_work"]["n_bits"] = json!(n_bits);
                    let Some(o) = config_validate(&c, Felt::from(sec), c1, c2) else { continue };
                    ctx.stats.evaluations += 1;
                    if !(20..=50).contains(&n_bits) && o.is_accept() {
                        let rep = replay_envelope("C09", "c09.config", &ctx.variant, json!({"call": "config", "config": cfg, "faults": [{"op": "Set", "path": "config.proof_of_work.n_bits", "value": n_bits.to_string()}], "security": sec, "cols": [c1, c2], "expected_outcome": o.describe()}));
                        ctx.violation("C09|config-bounds|stark-config", &format!("{}: StarkConfig::validate accepts proof-of-work difficulty {n_bits} (requested security {sec})", l.file), rep);
                    }
                }
            }
        }
        ctx.stats.state("stark-config|pow-bounds".into());
    }
    let scenario = "c09.recorded";
    let n_toy = if ctx.is_quick() { 4 } else { 40 };
    let bases = scen_proof::collect_bases(ctx, scenario, n_toy, 0);
    for (bi, base) in bases.iter().enumerate() {
        if !ctx.mine(2_000_000 + bi as u64) {
            continue;
        }
        let Some((ev, o)) = events_of(&base.layout, &base.image, base.security) else { continue };
        if !o.is_accept() {
            continue;
        }
        ctx.stats.evaluations += 1;
        let absorbs: Vec<usize> = ev.iter().enumerate().filter(|(_, e)| matches!(e, Event::Absorb { .. })).map(|(i, _)| i).collect();
        let nonce = base.image["unsent_commitment"]["proof_of_work"]["nonce"].as_u64().unwrap();
        let n_bits = base.image["config"]["proof_of_work"]["n_bits"].as_u64().unwrap() as u8;
        let last = absorbs[absorbs.len() - 1];
        let before = absorbs[absorbs.len() - 2];
        let mk = |ctx: &Ctx, what: &str| replay_envelope("C09", scenario, &ctx.variant, json!({"base": base.spec, "layout": base.layout, "faults": [], "oracle": what, "call": "recorded-pow"}));
        let ok_order = matches!(&ev[last], Event::Absorb { values, .. } if values == &vec![Felt::from(nonce)])
            && ev[last + 1..].iter().all(|e| matches!(e, Event::Squeeze { .. }))
            && ev[..last].iter().filter(|e| matches!(e, Event::Squeeze { .. })).count() + ev[last + 1..].len() == ev.iter().filter(|e| matches!(e, Event::Squeeze { .. })).count();
        if !ok_order {
            ctx.violation("C09|nonce-not-absorbed-before-queries", &format!("{}: the last absorbed message is not the nonce, or challenges follow it out of order", base.name), mk(ctx, "absorb-order"));
        }
        if let Event::Absorb { digest_after, .. } = &ev[before] {
            let d = digest_after.to_bytes_be();
            let lz = models::leading_zero_bits(&models::pow_hash(&d, n_bits, nonce));
            ctx.stats.state(format!("recorded|bits{n_bits}|lz{}", lz.min(40)));
            if lz < n_bits as u32 {
                ctx.violation("C09|accepted-nonce-invalid", &format!("{}: accepted run whose nonce has only {lz} leading zero bits for difficulty {n_bits}", base.name), mk(ctx, "recorded-nonce"));
            } else {
                ctx.stats.probe(&format!("accepted-nonce-valid-at-{n_bits}-bits"));
            }
            // one bit short: the same nonce must be rejected at difficulty lz+1 .. (threshold from above)
            if lz < 128 {
                let o = monitor::guarded(1000, || swiftness_pow::pow::verify_pow(d, (lz + 1) as u8, nonce)).outcome;
                let want = models::pow_valid(&d, (lz + 1) as u8, nonce);
                ctx.stats.evaluations += 1;
                if o.is_accept() != want {
                    ctx.violation("C09|verdict|recorded-threshold", &format!("{}: verify_pow at difficulty {} disagrees with the reference", base.name, lz + 1), mk(ctx, "recorded-threshold"));
                }
            }
        }
    }
}

pub fn replay(rep: &Value) -> Result<(bool, String), String> {
    match rep["call"].as_str() {
        Some("config") => {
            let cfg = &rep["config"];
            let faults: Vec<Fault> = serde_json::from_value(rep["faults"].clone()).map_err(|e| e.to_string())?;
            let wrapped = json!({"config": cfg});
            let img = if faults.is_empty() { wrapped } else { proofrun::apply_faults(&wrapped, &faults).ok_or("faults do not apply")? };
            let sec = rep["security"].as_u64().ok_or("security")?;
            let (c1, c2) = (rep["cols"][0].as_u64().ok_or("cols")?, rep["cols"][1].as_u64().ok_or("cols")?);
            let o = config_validate(&img["config"], Felt::from(sec), c1, c2).ok_or("ill-typed")?;
            let m = ref_config(&img["config"], &BigUint::from(sec), c1, c2);
            Ok((m.is_ok() != o.is_accept(), format!("{} (reference: {m:?})", o.describe())))
        }
        Some("queries") => {
            let digest = Felt::from_hex(rep["digest"].as_str().ok_or("digest")?).map_err(|e| format!("{e:?}"))?;
            let counter = rep["counter"].as_u64().ok_or("counter")?;
            let n = rep["n"].as_u64().ok_or("n")?;
            let log_d = rep["log_domain"].as_u64().ok_or("log_domain")? as u32;
            let r = monitor::guarded_val(4 * (n + 8), || {
                let mut t = Transcript::new_with_counter(digest, Felt::from(counter));
                let q = swiftness_stark::queries::generate_queries(&mut t, Felt::from(n), models::pow2(log_d as u64));
                (q, *t.counter())
            });
            if !r.outcome.is_accept() {
                return Ok((true, r.outcome.describe()));
            }
            let mut t = Transcript::new_with_counter(digest, Felt::from(counter));
            let q = swiftness_stark::queries::generate_queries(&mut t, Felt::from(n), models::pow2(log_d as u64));
            let mut m = RefTranscript { digest, counter };
            let (_, want) = models::ref_queries(&mut m, n, log_d);
            let same = q.iter().map(|f| f.to_biguint()).collect::<Vec<_>>() == want.iter().map(|x| BigUint::from(*x)).collect::<Vec<_>>();
            let adv = felt_u64(t.counter()) == Some(counter + n);
            Ok((!same || !adv, format!("queries {:?}", q.iter().take(8).map(|f| format!("{f:#x}")).collect::<Vec<_>>())))
        }
        Some("points") => {
            let idx: Vec<u64> = serde_json::from_value(rep["indices"].clone()).map_err(|e| e.to_string())?;
            let log_d = rep["log_domain"].as_u64().ok_or("log_domain")? as u32;
            let lc = rep["log_cosets"].as_u64().ok_or("log_cosets")?;
            let r = monitor::guarded_val(10_000_000, || {
                let dom = StarkDomains::new(Felt::from(log_d as u64 - lc), Felt::from(lc));
                let qf: Vec<Felt> = idx.iter().map(|x| Felt::from(*x)).collect();
                swiftness_stark::queries::queries_to_points(&qf, &dom)
            });
            if !r.outcome.is_accept() {
                return Ok((true, r.outcome.describe()));
            }
            let dom = StarkDomains::new(Felt::from(log_d as u64 - lc), Felt::from(lc));
            let qf: Vec<Felt> = idx.iter().map(|x| Felt::from(*x)).collect();
            let pts = swiftness_stark::queries::queries_to_points(&qf, &dom);
            let w = models::subgroup_generator(log_d);
            let bad = idx.iter().zip(pts.iter()).any(|(i, p)| Felt::THREE * w.pow(models::bitrev(*i, log_d) as u128) != *p);
            Ok((bad, "points compared".into()))
        }
        Some("recorded-queries") => {
            let l = stone_loader::load_file(rep["file"].as_str().ok_or("file")?)?;
            let got = scen_proof::query_set_of_run(&l.layout, &l.proof, proofrun::security_of(&l.proof));
            let mut logged = l.challenges.query_indices.clone();
            logged.sort();
            logged.dedup();
            Ok((got.as_ref() != Some(&logged), format!("{got:?}")))
        }
        Some("protocol-history") if rep["oracle"].as_str() == Some("interaction-assignment") => {
            let base = proofrun::base_from_spec(&rep["base"])?;
            let l = stone_loader::load_file(rep["base"]["file"].as_str().ok_or("not a recorded base")?)?;
            match interaction_assignment_problem(&base.layout, &base.image, &l.challenges.interaction_elements) {
                Some(Some(b)) => Ok((true, b)),
                Some(None) => Ok((false, "every element under its name".into())),
                None => Err("traces_commit did not complete".into()),
            }
        }
        Some("protocol-history") | Some("recorded-pow") => {
            let base = proofrun::base_from_spec(&rep["base"])?;
            let faults: Vec<Fault> = serde_json::from_value(rep["faults"].clone()).map_err(|e| e.to_string())?;
            let img = if faults.is_empty() { base.image.clone() } else { proofrun::apply_faults(&base.image, &faults).ok_or("faults do not apply")? };
            let (ev, o) = events_of(&base.layout, &img, base.security).ok_or("ill-typed")?;
            let absorbs: Vec<usize> = ev.iter().enumerate().filter(|(_, e)| matches!(e, Event::Absorb { .. })).map(|(i, _)| i).collect();
            let n_int = absorbs.get(1).zip(absorbs.first()).map(|(b, a)| b - a - 1).unwrap_or(0);
            let want = predicted_history(&base.layout, &img, n_int);
            let prefix_ok = want.as_ref().map(|w| ev.len() <= w.len() && w[..ev.len()] == ev[..]).unwrap_or(false);
            Ok((!prefix_ok, format!("{} events, outcome {}", ev.len(), o.class())))
        }
        c => Err(format!("unknown call {c:?}")),
    }
}
