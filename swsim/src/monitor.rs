//! Verdict monitor: runs one verifier call under catch_unwind with the work meter armed and
//! classifies what happened. Panic location and message are captured by a process-wide hook.
use std::cell::RefCell;
use std::fmt::Debug;
use std::panic::{catch_unwind, AssertUnwindSafe};
use swiftness_transcript::verif::{self, Overwork};

thread_local! {
    static LAST_PANIC: RefCell<Option<(String, String)>> = const { RefCell::new(None) };
}

pub fn install_panic_hook() {
    std::panic::set_hook(Box::new(|info| {
        let loc = info
            .location()
            .map(|l| format!("{}:{}:{}", l.file(), l.line(), l.column()))
            .unwrap_or_else(|| "<unknown>".into());
        let msg = if let Some(s) = info.payload().downcast_ref::<&str>() {
            s.to_string()
        } else if let Some(s) = info.payload().downcast_ref::<String>() {
            s.clone()
        } else if info.payload().downcast_ref::<Overwork>().is_some() {
            "overwork".to_string()
        } else {
            "<non-string payload>".to_string()
        };
        LAST_PANIC.with(|p| *p.borrow_mut() = Some((loc, msg)));
    }));
}

pub fn last_panic() -> Option<(String, String)> {
    LAST_PANIC.with(|p| p.borrow().clone())
}

#[derive(Debug, Clone, PartialEq)]
pub enum Outcome {
    /// Ok(..) with a Debug rendering of the value.
    Accept(String),
    /// Err(..): full Debug rendering and the variant path (payload values stripped).
    Reject { full: String, variant: String },
    Panic { loc: String, msg: String },
    Overwork { site: String, ticks: u64 },
}

impl Outcome {
    pub fn is_accept(&self) -> bool {
        matches!(self, Outcome::Accept(_))
    }
    pub fn is_reject(&self) -> bool {
        matches!(self, Outcome::Reject { .. })
    }
    pub fn is_panic(&self) -> bool {
        matches!(self, Outcome::Panic { .. })
    }
    /// Short class label used in state counting and replay comparison.
    pub fn class(&self) -> String {
        match self {
            Outcome::Accept(_) => "ACCEPT".into(),
            Outcome::Reject { variant, .. } => format!("REJECT({variant})"),
            Outcome::Panic { loc, .. } => format!("PANIC({})", short_loc(loc)),
            Outcome::Overwork { site, .. } => format!("OVERWORK({site})"),
        }
    }
    /// Full, deterministic description (used for replay equality).
    pub fn describe(&self) -> String {
        match self {
            Outcome::Accept(v) => format!("ACCEPT {v}"),
            Outcome::Reject { full, .. } => format!("REJECT {full}"),
            Outcome::Panic { loc, msg } => format!("PANIC {} {}", short_loc(loc), first_line(msg)),
            Outcome::Overwork { site, .. } => format!("OVERWORK {site}"),
        }
    }
}

fn first_line(s: &str) -> String {
    let l = s.lines().next().unwrap_or("");
    if l.len() > 160 {
        format!("{}…", &l[..160])
    } else {
        l.to_string()
    }
}

/// Strips the checkout prefix so locations are stable: `/repo/crates/fri/src/fri.rs:57:5` ->
/// `crates/fri/src/fri.rs:57:5`; vendored crates -> `<crate>/src/..`.
pub fn short_loc(loc: &str) -> String {
    // (marker assembled so that tools/check_in_copy.sh, which rewrites the checkout path in the
    // sources of its scratch copy, leaves it alone: locations are relative to the checkout)
    let marker = concat!("/rep", "o/");
    if let Some(i) = loc.find(marker) {
        return loc[i + marker.len()..].to_string();
    }
    if let Some(i) = loc.find("/vendor/") {
        return format!("vendor:{}", &loc[i + 8..]);
    }
    if let Some(i) = loc.find("/registry/src/") {
        let rest = &loc[i + 14..];
        if let Some(j) = rest.find('/') {
            return format!("vendor:{}", &rest[j + 1..]);
        }
    }
    if let Some(i) = loc.find("/rustc/") {
        let rest = &loc[i + 7..];
        if let Some(j) = rest.find('/') {
            return format!("rust:{}", &rest[j + 1..]);
        }
    }
    loc.to_string()
}

/// Drops payload values from a Debug-rendered error so that only the variant path remains:
/// `Verify(FriError(InvalidLength { expected: 3, actual: 2 }))` -> `Verify(FriError(InvalidLength))`.
pub fn variant_path(dbg: &str) -> String {
    let mut out = String::new();
    let mut depth_brace = 0usize;
    let mut chars = dbg.chars().peekable();
    let mut token = String::new();
    let flush = |token: &mut String, out: &mut String| {
        if !token.is_empty() {
            let t = token.trim();
            let is_ident = t.chars().next().map(|c| c.is_ascii_uppercase()).unwrap_or(false)
                && t.chars().all(|c| c.is_ascii_alphanumeric() || c == '_');
            if is_ident {
                out.push_str(t);
            } else {
                out.push('_');
            }
            token.clear();
        }
    };
    while let Some(c) = chars.next() {
        match c {
            '{' => {
                if depth_brace == 0 {
                    flush(&mut token, &mut out);
                }
                depth_brace += 1;
            }
            '}' => {
                depth_brace = depth_brace.saturating_sub(1);
            }
            _ if depth_brace > 0 => {}
            '(' => {
                flush(&mut token, &mut out);
                out.push('(');
            }
            ')' => {
                flush(&mut token, &mut out);
                out.push(')');
            }
            ',' => {
                flush(&mut token, &mut out);
                out.push(',');
            }
            _ => token.push(c),
        }
    }
    flush(&mut token, &mut out);
    // collapse `(_)` produced by scalar payloads
    out.replace("(_)", "").replace(" ", "")
}

pub struct Run {
    pub outcome: Outcome,
    pub ticks: u64,
}

/// Runs `f` with the work meter limited to `tick_limit`.
pub fn guarded<T: Debug, E: Debug>(tick_limit: u64, f: impl FnOnce() -> Result<T, E>) -> Run {
    LAST_PANIC.with(|p| *p.borrow_mut() = None);
    verif::reset_ticks(tick_limit);
    let res = catch_unwind(AssertUnwindSafe(f));
    let ticks = verif::ticks();
    verif::reset_ticks(u64::MAX);
    let outcome = match res {
        Ok(Ok(v)) => Outcome::Accept(format!("{v:?}")),
        Ok(Err(e)) => {
            let full = format!("{e:?}");
            let variant = variant_path(&full);
            Outcome::Reject { full, variant }
        }
        Err(payload) => {
            if let Some(o) = payload.downcast_ref::<Overwork>() {
                Outcome::Overwork { site: o.site.to_string(), ticks: o.ticks }
            } else {
                let (loc, msg) = LAST_PANIC
                    .with(|p| p.borrow_mut().take())
                    .unwrap_or(("<unknown>".into(), "<unknown>".into()));
                Outcome::Panic { loc, msg }
            }
        }
    };
    Run { outcome, ticks }
}

/// Like `guarded` for infallible functions (returns Accept on normal return).
pub fn guarded_val<T: Debug>(tick_limit: u64, f: impl FnOnce() -> T) -> Run {
    guarded::<T, ()>(tick_limit, || Ok(f()))
}
