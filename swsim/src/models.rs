//! Reference models (oracles): small, sequential, written from the protocol description.
//! Trusted base shared with the code under test: starknet-crypto Poseidon/Pedersen, field
//! arithmetic of starknet-types-core, sha3, blake2.
use starknet_crypto::{poseidon_hash, poseidon_hash_many, Felt};

// ------------------------------------------------------------------------------------------
// field helpers
// ------------------------------------------------------------------------------------------

pub fn felt_u64(x: u64) -> Felt {
    Felt::from(x)
}

pub fn pow2(k: u64) -> Felt {
    Felt::TWO.pow(k as u128)
}

/// 2^256 mod p (Montgomery R).
pub fn mont_r() -> Felt {
    Felt::TWO.pow(256u32)
}

pub fn inv(x: Felt) -> Felt {
    x.inverse().expect("inverse of zero")
}

/// Multiplicative order of 2 in the field (p − 1 = 2^192 · 5 · 7 · 98714381 · 166848103).
/// `2^(e + k·ord) = 2^e`: a declared exponent that is only ever used through `2^x` has aliases.
pub fn order_of_two() -> num_bigint::BigUint {
    use num_bigint::BigUint;
    let p_minus_1 = (Felt::ZERO - Felt::ONE).to_biguint();
    let mut n = p_minus_1.clone();
    let is_one = |e: &BigUint| Felt::TWO.pow_felt(&Felt::from_bytes_be_slice(&e.to_bytes_be())) == Felt::ONE;
    for q in [2u64, 5, 7, 98714381, 166848103] {
        let q = BigUint::from(q);
        while (&n % &q) == BigUint::from(0u32) && is_one(&(&n / &q)) {
            n /= &q;
        }
    }
    assert!(is_one(&n));
    n
}

/// e + k·ord(2) for the k that keep the value below p (never equal to e).
pub fn exponent_aliases(e: u64) -> Vec<Felt> {
    use num_bigint::BigUint;
    let ord = order_of_two();
    let p = (Felt::ZERO - Felt::ONE).to_biguint() + BigUint::from(1u32);
    let mut out = Vec::new();
    let mut k = 1u32;
    loop {
        let v = BigUint::from(e) + &ord * BigUint::from(k);
        if v >= p || out.len() >= 9 {
            break;
        }
        out.push(Felt::from_bytes_be_slice(&v.to_bytes_be()));
        k += 1;
    }
    out
}

pub fn bitrev(i: u64, bits: u32) -> u64 {
    if bits == 0 {
        0
    } else {
        i.reverse_bits() >> (64 - bits)
    }
}

/// Generator of the multiplicative subgroup of order 2^k: 3^((p-1)/2^k).
pub fn subgroup_generator(k: u32) -> Felt {
    assert!(k <= 192);
    // (p-1) = 2^192 * (2^59 + 17)
    let odd = Felt::from(1u64 << 59) + Felt::from(17u64);
    let e = odd * Felt::TWO.pow((192 - k) as u128);
    Felt::THREE.pow_felt(&e)
}

pub fn eval_poly(coeffs: &[Felt], x: Felt) -> Felt {
    let mut r = Felt::ZERO;
    for c in coeffs.iter().rev() {
        r = r * x + c;
    }
    r
}

/// In-place radix-2 NTT: input coefficients (len 2^k, zero padded), output evaluations at
/// w^0, w^1, ... (natural order) where w = `root` of order len.
pub fn ntt(a: &mut [Felt], root: Felt) {
    let n = a.len();
    assert!(n.is_power_of_two());
    let bits = n.trailing_zeros();
    for i in 0..n {
        let j = bitrev(i as u64, bits) as usize;
        if i < j {
            a.swap(i, j);
        }
    }
    let mut len = 2;
    while len <= n {
        let wl = root.pow((n / len) as u128);
        let half = len / 2;
        // precompute twiddles
        let mut tw = Vec::with_capacity(half);
        let mut w = Felt::ONE;
        for _ in 0..half {
            tw.push(w);
            w *= wl;
        }
        let mut i = 0;
        while i < n {
            for j in 0..half {
                let u = a[i + j];
                let v = a[i + j + half] * tw[j];
                a[i + j] = u + v;
                a[i + j + half] = u - v;
            }
            i += len;
        }
        len <<= 1;
    }
}

/// Evaluations of the polynomial `coeffs` (in the variable u) over the subgroup of order 2^log_n,
/// in *bit-reversed* order: out[i] = Q(w^{bitrev(i)}).
pub fn evaluate_bitrev(coeffs: &[Felt], log_n: u32) -> Vec<Felt> {
    let n = 1usize << log_n;
    let w = subgroup_generator(log_n);
    if coeffs.len() <= n {
        let mut a = coeffs.to_vec();
        a.resize(n, Felt::ZERO);
        ntt(&mut a, w);
        let mut out = vec![Felt::ZERO; n];
        for i in 0..n {
            out[i] = a[bitrev(i as u64, log_n) as usize];
        }
        out
    } else {
        // degree above the domain size: reduce modulo u^n - 1 first
        let mut a = vec![Felt::ZERO; n];
        for (i, c) in coeffs.iter().enumerate() {
            a[i % n] += c;
        }
        ntt(&mut a, w);
        let mut out = vec![Felt::ZERO; n];
        for i in 0..n {
            out[i] = a[bitrev(i as u64, log_n) as usize];
        }
        out
    }
}

/// Coefficients of the polynomial of degree < n through (xs[i], ys[i]) (xs distinct). O(n^2).
pub fn lagrange_interpolate(xs: &[Felt], ys: &[Felt]) -> Vec<Felt> {
    let n = xs.len();
    // master polynomial M(x) = prod (x - xs[i])
    let mut m = vec![Felt::ONE];
    for x in xs {
        let mut next = vec![Felt::ZERO; m.len() + 1];
        for (i, c) in m.iter().enumerate() {
            next[i + 1] += *c;
            next[i] -= *c * x;
        }
        m = next;
    }
    let mut out = vec![Felt::ZERO; n];
    for i in 0..n {
        // q(x) = M(x) / (x - xs[i]) by synthetic division
        let mut q = vec![Felt::ZERO; n];
        let mut carry = Felt::ZERO;
        for k in (0..n).rev() {
            carry = m[k + 1] + carry * xs[i];
            q[k] = carry;
        }
        let denom = eval_poly(&q, xs[i]);
        let scale = ys[i] * inv(denom);
        for k in 0..n {
            out[k] += q[k] * scale;
        }
    }
    out
}

// ------------------------------------------------------------------------------------------
// transcript
// ------------------------------------------------------------------------------------------

#[derive(Clone, Debug, PartialEq)]
pub struct RefTranscript {
    pub digest: Felt,
    pub counter: u64,
}

impl RefTranscript {
    pub fn new(digest: Felt) -> Self {
        RefTranscript { digest, counter: 0 }
    }
    pub fn absorb(&mut self, vals: &[Felt]) {
        let mut v = Vec::with_capacity(vals.len() + 1);
        v.push(self.digest + Felt::ONE);
        v.extend_from_slice(vals);
        self.digest = poseidon_hash_many(&v);
        self.counter = 0;
    }
    pub fn absorb_u64(&mut self, x: u64) {
        self.absorb(&[Felt::from(x)]);
    }
    pub fn squeeze(&mut self) -> Felt {
        let r = poseidon_hash(self.digest, Felt::from(self.counter));
        self.counter += 1;
        r
    }
}

// ------------------------------------------------------------------------------------------
// the build's unfriendly hash
// ------------------------------------------------------------------------------------------

pub fn raw_hash(data: &[u8]) -> [u8; 32] {
    let mut out = [0u8; 32];
    #[cfg(any(feature = "keccak_160_lsb", feature = "keccak_248_lsb"))]
    {
        use sha3::{Digest, Keccak256};
        out.copy_from_slice(&Keccak256::digest(data));
    }
    #[cfg(any(feature = "blake2s_160_lsb", feature = "blake2s_248_lsb"))]
    {
        use blake2::{Blake2s256, Digest};
        out.copy_from_slice(&Blake2s256::digest(data));
    }
    out
}

pub fn mask_bits() -> usize {
    if cfg!(any(feature = "keccak_160_lsb", feature = "blake2s_160_lsb")) {
        160
    } else {
        248
    }
}

/// Low `mask_bits()` bits of H(data) as a field element.
pub fn masked_hash(data: &[u8]) -> Felt {
    let h = raw_hash(data);
    let keep = mask_bits() / 8;
    let mut b = [0u8; 32];
    b[32 - keep..].copy_from_slice(&h[32 - keep..]);
    Felt::from_bytes_be(&b)
}

// ------------------------------------------------------------------------------------------
// proof of work
// ------------------------------------------------------------------------------------------

pub const POW_MAGIC: u64 = 0x0123456789abcded;

pub fn pow_hash(digest: &[u8; 32], n_bits: u8, nonce: u64) -> [u8; 32] {
    let mut init = Vec::with_capacity(41);
    init.extend_from_slice(&POW_MAGIC.to_be_bytes());
    init.extend_from_slice(digest);
    init.push(n_bits);
    let h1 = raw_hash(&init);
    let mut second = Vec::with_capacity(40);
    second.extend_from_slice(&h1);
    second.extend_from_slice(&nonce.to_be_bytes());
    raw_hash(&second)
}

/// "keccak" or "blake2s": which unfriendly hash this build's proof of work uses.
pub fn pow_hash_kind() -> &'static str {
    if cfg!(any(feature = "keccak_160_lsb", feature = "keccak_248_lsb")) {
        "keccak"
    } else {
        "blake2s"
    }
}

/// Parallel grind (one thread per core): some nonce satisfying the difficulty. Used once, offline,
/// to produce the committed table `pow_solutions.json` for difficulties above 32 bits.
pub fn pow_grind_parallel(digest: &[u8; 32], n_bits: u8, threads: u64) -> u64 {
    use std::sync::atomic::{AtomicBool, AtomicU64, Ordering};
    let mut init = Vec::with_capacity(41);
    init.extend_from_slice(&POW_MAGIC.to_be_bytes());
    init.extend_from_slice(digest);
    init.push(n_bits);
    let h1 = raw_hash(&init);
    let done = AtomicBool::new(false);
    let found = AtomicU64::new(0);
    std::thread::scope(|sc| {
        for t in 0..threads {
            let (done, found, h1) = (&done, &found, &h1);
            sc.spawn(move || {
                let mut buf = [0u8; 40];
                buf[..32].copy_from_slice(h1);
                let mut nonce = t;
                let mut i = 0u64;
                loop {
                    buf[32..].copy_from_slice(&nonce.to_be_bytes());
                    if leading_zero_bits(&raw_hash(&buf)) >= n_bits as u32 {
                        found.store(nonce, Ordering::SeqCst);
                        done.store(true, Ordering::SeqCst);
                        return;
                    }
                    nonce += threads;
                    i += 1;
                    if i % 65536 == 0 && done.load(Ordering::Relaxed) {
                        return;
                    }
                }
            });
        }
    });
    found.load(Ordering::SeqCst)
}

pub fn leading_zero_bits(h: &[u8; 32]) -> u32 {
    let mut n = 0;
    for b in h {
        if *b == 0 {
            n += 8;
        } else {
            n += b.leading_zeros();
            break;
        }
    }
    n
}

pub fn pow_valid(digest: &[u8; 32], n_bits: u8, nonce: u64) -> bool {
    leading_zero_bits(&pow_hash(digest, n_bits, nonce)) >= n_bits as u32
}

/// Smallest nonce >= start that satisfies the difficulty.
pub fn pow_grind(digest: &[u8; 32], n_bits: u8, start: u64) -> u64 {
    let mut init = Vec::with_capacity(41);
    init.extend_from_slice(&POW_MAGIC.to_be_bytes());
    init.extend_from_slice(digest);
    init.push(n_bits);
    let h1 = raw_hash(&init);
    let mut buf = [0u8; 40];
    buf[..32].copy_from_slice(&h1);
    let mut nonce = start;
    loop {
        buf[32..].copy_from_slice(&nonce.to_be_bytes());
        let h = raw_hash(&buf);
        if leading_zero_bits(&h) >= n_bits as u32 {
            return nonce;
        }
        nonce = nonce.wrapping_add(1);
    }
}

// ------------------------------------------------------------------------------------------
// Merkle tree / table commitment
// ------------------------------------------------------------------------------------------

/// Hash of two children that sit at depth `child_depth` (root = depth 0).
pub fn node_hash(l: Felt, r: Felt, child_depth: u64, n_friendly: u64) -> Felt {
    if n_friendly >= child_depth {
        poseidon_hash(l, r)
    } else {
        let mut d = [0u8; 64];
        d[..32].copy_from_slice(&l.to_bytes_be());
        d[32..].copy_from_slice(&r.to_bytes_be());
        masked_hash(&d)
    }
}

#[derive(Clone)]
pub struct RefTree {
    pub height: u32,
    pub n_friendly: u64,
    /// layers[d] has 2^d nodes; layers[height] are the leaves.
    pub layers: Vec<Vec<Felt>>,
}

impl RefTree {
    pub fn build(leaves: Vec<Felt>, n_friendly: u64) -> Self {
        assert!(leaves.len().is_power_of_two());
        let height = leaves.len().trailing_zeros();
        let mut layers = vec![Vec::new(); height as usize + 1];
        layers[height as usize] = leaves;
        for d in (0..height as usize).rev() {
            let child = &layers[d + 1];
            let mut cur = Vec::with_capacity(child.len() / 2);
            for i in 0..child.len() / 2 {
                cur.push(node_hash(child[2 * i], child[2 * i + 1], (d + 1) as u64, n_friendly));
            }
            layers[d] = cur;
        }
        RefTree { height, n_friendly, layers }
    }
    pub fn root(&self) -> Felt {
        self.layers[0][0]
    }
    /// Authentication nodes for sorted distinct leaf indices: bottom layer up, left to right.
    /// Also returns the heap index (2^depth + position) of each emitted node.
    pub fn auth(&self, queries: &[u64]) -> (Vec<Felt>, Vec<u64>) {
        let mut out = Vec::new();
        let mut ids = Vec::new();
        let mut known: Vec<u64> = queries.to_vec();
        for d in (1..=self.height as usize).rev() {
            let mut parents = Vec::new();
            let mut i = 0;
            while i < known.len() {
                let k = known[i];
                let sib = k ^ 1;
                if k & 1 == 0 && i + 1 < known.len() && known[i + 1] == sib {
                    i += 2;
                } else {
                    out.push(self.layers[d][sib as usize]);
                    ids.push((1u64 << d) + sib);
                    i += 1;
                }
                parents.push(k >> 1);
            }
            known = parents;
        }
        (out, ids)
    }
}

/// A tree of any height (up to 63) in which all but a few leaves hold `default_leaf`: one default
/// node value per depth plus the nodes on the paths of the set leaves. O(set leaves × height).
pub struct SparseTree {
    pub height: u32,
    pub n_friendly: u64,
    default_nodes: Vec<Felt>,
    nodes: std::collections::BTreeMap<(u32, u64), Felt>,
}

impl SparseTree {
    pub fn build(height: u32, n_friendly: u64, default_leaf: Felt, set: &[(u64, Felt)]) -> Self {
        let mut default_nodes = vec![Felt::ZERO; height as usize + 1];
        default_nodes[height as usize] = default_leaf;
        for d in (0..height as usize).rev() {
            default_nodes[d] = node_hash(default_nodes[d + 1], default_nodes[d + 1], (d + 1) as u64, n_friendly);
        }
        let mut t = SparseTree { height, n_friendly, default_nodes, nodes: Default::default() };
        let mut level: Vec<u64> = Vec::new();
        for (i, v) in set {
            t.nodes.insert((height, *i), *v);
            level.push(*i);
        }
        level.sort();
        level.dedup();
        for d in (1..=height).rev() {
            let mut parents: Vec<u64> = level.iter().map(|i| i >> 1).collect();
            parents.dedup();
            for p in &parents {
                let h = node_hash(t.node(d, 2 * p), t.node(d, 2 * p + 1), d as u64, n_friendly);
                t.nodes.insert((d - 1, *p), h);
            }
            level = parents;
        }
        t
    }
    pub fn node(&self, depth: u32, index: u64) -> Felt {
        *self.nodes.get(&(depth, index)).unwrap_or(&self.default_nodes[depth as usize])
    }
    pub fn root(&self) -> Felt {
        self.node(0, 0)
    }
    /// Same order as `RefTree::auth`.
    pub fn auth(&self, queries: &[u64]) -> Vec<Felt> {
        let mut out = Vec::new();
        let mut known: Vec<u64> = queries.to_vec();
        for d in (1..=self.height).rev() {
            let mut parents = Vec::new();
            let mut i = 0;
            while i < known.len() {
                let k = known[i];
                let sib = k ^ 1;
                if k & 1 == 0 && i + 1 < known.len() && known[i + 1] == sib {
                    i += 2;
                } else {
                    out.push(self.node(d, sib));
                    i += 1;
                }
                parents.push(k >> 1);
            }
            known = parents;
        }
        out
    }
}

/// Leaf of the vector commitment for one table row (`cells` are the plain values).
pub fn row_leaf(cells: &[Felt], height: u32, n_friendly: u64) -> Felt {
    let r = mont_r();
    let mont: Vec<Felt> = cells.iter().map(|c| *c * r).collect();
    if mont.len() == 1 {
        mont[0]
    } else if n_friendly >= height as u64 + 1 {
        poseidon_hash_many(&mont)
    } else {
        let mut d = Vec::with_capacity(32 * mont.len());
        for m in &mont {
            d.extend_from_slice(&m.to_bytes_be());
        }
        masked_hash(&d)
    }
}

#[derive(Clone)]
pub struct RefTable {
    pub n_columns: usize,
    pub rows: Vec<Vec<Felt>>,
    pub tree: RefTree,
}

impl RefTable {
    pub fn build(rows: Vec<Vec<Felt>>, n_friendly: u64) -> Self {
        let n_columns = rows[0].len();
        let height = rows.len().trailing_zeros();
        let leaves = rows.iter().map(|r| row_leaf(r, height, n_friendly)).collect();
        RefTable { n_columns, rows, tree: RefTree::build(leaves, n_friendly) }
    }
    /// Table where every row is identical: O(height) instead of O(rows) hashing, any height.
    pub fn constant_root(row: &[Felt], height: u32, n_friendly: u64) -> (Felt, Vec<Felt>) {
        // returns (root, node value per depth: nodes[d] = value of every node at depth d)
        let mut nodes = vec![Felt::ZERO; height as usize + 1];
        nodes[height as usize] = row_leaf(row, height, n_friendly);
        for d in (0..height as usize).rev() {
            nodes[d] = node_hash(nodes[d + 1], nodes[d + 1], (d + 1) as u64, n_friendly);
        }
        (nodes[0], nodes)
    }
    pub fn root(&self) -> Felt {
        self.tree.root()
    }
    pub fn open(&self, queries: &[u64]) -> (Vec<Felt>, Vec<Felt>) {
        let mut vals = Vec::new();
        for q in queries {
            vals.extend_from_slice(&self.rows[*q as usize]);
        }
        (vals, self.tree.auth(queries).0)
    }
}

/// Authentication path in a constant tree (`nodes[d]` = value of every node at depth d).
pub fn constant_auth(nodes: &[Felt], height: u32, queries: &[u64]) -> Vec<Felt> {
    let mut out = Vec::new();
    let mut known: Vec<u64> = queries.to_vec();
    for d in (1..=height as usize).rev() {
        let mut parents = Vec::new();
        let mut i = 0;
        while i < known.len() {
            let k = known[i];
            if k & 1 == 0 && i + 1 < known.len() && known[i + 1] == k + 1 {
                i += 2;
            } else {
                out.push(nodes[d]);
                i += 1;
            }
            parents.push(k >> 1);
        }
        known = parents;
    }
    out
}

// ------------------------------------------------------------------------------------------
// queries
// ------------------------------------------------------------------------------------------

/// Stone / Cairo-verifier semantics: low 128 bits of each squeeze, modulo the domain size,
/// sorted and de-duplicated. Returns (raw samples in draw order, final set).
pub fn ref_queries(t: &mut RefTranscript, n: u64, log_domain: u32) -> (Vec<u64>, Vec<u64>) {
    let mut raw = Vec::new();
    for _ in 0..n {
        let s = t.squeeze();
        let b = s.to_bytes_be();
        let mut lo = [0u8; 16];
        lo.copy_from_slice(&b[16..]);
        let lo = u128::from_be_bytes(lo);
        let m = if log_domain >= 128 { lo } else { lo & ((1u128 << log_domain) - 1) };
        raw.push(m as u64);
    }
    let mut s = raw.clone();
    s.sort();
    s.dedup();
    (raw, s)
}

/// Field point of evaluation-domain index i: 3 * w^{bitrev(i)}.
pub fn query_point(i: u64, log_domain: u32) -> Felt {
    Felt::THREE * subgroup_generator(log_domain).pow(bitrev(i, log_domain) as u128)
}

// ------------------------------------------------------------------------------------------
// FRI (coefficient space)
// ------------------------------------------------------------------------------------------

/// One FRI fold in coefficient space: c'_m = 2^k * sum_j b^j c_{2^k m + j}.
pub fn fold_coeffs(c: &[Felt], k: u32, b: Felt) -> Vec<Felt> {
    let w = 1usize << k;
    let n = (c.len() + w - 1) / w;
    let scale = pow2(k as u64);
    let mut out = Vec::with_capacity(n);
    for m in 0..n {
        let mut acc = Felt::ZERO;
        let mut bp = Felt::ONE;
        for j in 0..w {
            if let Some(x) = c.get(m * w + j) {
                acc += bp * x;
            }
            bp *= b;
        }
        out.push(acc * scale);
    }
    out
}

#[derive(Clone, Debug)]
pub struct FriShape {
    pub log_input: u32,
    /// step sizes including the leading 0
    pub steps: Vec<u32>,
    pub log_last_bound: u32,
    pub n_friendly: u64,
}

impl FriShape {
    pub fn sum_steps(&self) -> u32 {
        self.steps.iter().sum()
    }
    pub fn log_degree_bound(&self) -> u32 {
        self.sum_steps() + self.log_last_bound
    }
}

/// Honest FRI prover state for one input polynomial (coefficients in the un-shifted variable u).
pub struct FriProver {
    pub shape: FriShape,
    /// layer functions, bit-reversed order; layers[0] is the input layer
    pub layer_evals: Vec<Vec<Felt>>,
    pub tables: Vec<RefTable>,
    pub eval_points: Vec<Felt>,
    pub last_layer: Vec<Felt>,
    /// coefficient vectors per layer (for the fold identity)
    pub coeffs: Vec<Vec<Felt>>,
}

impl FriProver {
    /// Runs the commit phase against `t` (absorbing roots, squeezing evaluation points, absorbing
    /// the last layer). `truncate_last`: honest provers send exactly 2^bound coefficients (the
    /// folded polynomial has no more); a cheating prover's longer vector is cut (or not) by the
    /// caller through `last_len`.
    pub fn commit(shape: FriShape, input_coeffs: Vec<Felt>, t: &mut RefTranscript, last_len: Option<usize>) -> Self {
        let mut coeffs = vec![input_coeffs];
        let mut layer_evals = Vec::new();
        let mut tables = Vec::new();
        let mut eval_points = Vec::new();
        let mut log_size = shape.log_input;
        let n_inner = shape.steps.len() - 1;
        for i in 0..n_inner {
            let step = shape.steps[i + 1];
            let evals = evaluate_bitrev(&coeffs[i], log_size);
            let w = 1usize << step;
            let rows: Vec<Vec<Felt>> = evals.chunks(w).map(|c| c.to_vec()).collect();
            let table = RefTable::build(rows, shape.n_friendly);
            t.absorb(&[table.root()]);
            let b = t.squeeze();
            eval_points.push(b);
            let next = fold_coeffs(&coeffs[i], step, b);
            coeffs.push(next);
            layer_evals.push(evals);
            tables.push(table);
            log_size -= step;
        }
        let mut last = coeffs[n_inner].clone();
        let want = last_len.unwrap_or(1usize << shape.log_last_bound);
        last.resize(want.max(0), Felt::ZERO);
        last.truncate(want);
        t.absorb(&last);
        FriProver { shape, layer_evals, tables, eval_points, last_layer: last, coeffs }
    }

    /// Decommitment for sorted distinct input-layer queries: (values at queries, per-layer
    /// (sibling leaves, authentication nodes), per-layer (coset indices, coset values)).
    #[allow(clippy::type_complexity)]
    pub fn open(&self, queries: &[u64]) -> (Vec<Felt>, Vec<(Vec<Felt>, Vec<Felt>)>, Vec<(Vec<u64>, Vec<Vec<Felt>>)>) {
        let values: Vec<Felt> = queries.iter().map(|q| self.layer_evals[0][*q as usize]).collect();
        let mut cur: Vec<u64> = queries.to_vec();
        let mut layers = Vec::new();
        let mut cosets_out = Vec::new();
        for (i, table) in self.tables.iter().enumerate() {
            let step = self.shape.steps[i + 1];
            let w = 1u64 << step;
            let mut cosets: Vec<u64> = cur.iter().map(|q| q >> step).collect();
            cosets.dedup();
            let mut leaves = Vec::new();
            let mut rows = Vec::new();
            for c in &cosets {
                for j in 0..w {
                    let idx = c * w + j;
                    if cur.binary_search(&idx).is_err() {
                        leaves.push(self.layer_evals[i][idx as usize]);
                    }
                }
                rows.push(table.rows[*c as usize].clone());
            }
            let (_, auth) = table.open(&cosets);
            layers.push((leaves, auth));
            cosets_out.push((cosets.clone(), rows));
            cur = cosets;
        }
        (values, layers, cosets_out)
    }
}
