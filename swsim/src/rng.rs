//! The simulator's only source of randomness: splitmix64 seeding + xoshiro256**.
//! Every choice of a run is drawn from `Rng::derive(seed, scenario, run_index)`, so a run is a
//! pure function of (VERIF_SEED, scenario name, run index) and of the code under test.
use starknet_crypto::Felt;

#[derive(Clone)]
pub struct Rng {
    s: [u64; 4],
}

fn splitmix64(x: &mut u64) -> u64 {
    *x = x.wrapping_add(0x9E3779B97F4A7C15);
    let mut z = *x;
    z = (z ^ (z >> 30)).wrapping_mul(0xBF58476D1CE4E5B9);
    z = (z ^ (z >> 27)).wrapping_mul(0x94D049BB133111EB);
    z ^ (z >> 31)
}

pub fn fnv1a(s: &str) -> u64 {
    let mut h: u64 = 0xcbf29ce484222325;
    for b in s.as_bytes() {
        h ^= *b as u64;
        h = h.wrapping_mul(0x100000001b3);
    }
    h
}

impl Rng {
    pub fn new(seed: u64) -> Self {
        let mut x = seed;
        let s = [splitmix64(&mut x), splitmix64(&mut x), splitmix64(&mut x), splitmix64(&mut x)];
        Rng { s }
    }
    /// Independent stream for (seed, scenario, run index).
    pub fn derive(seed: u64, scenario: &str, k: u64) -> Self {
        let mut x = seed ^ fnv1a(scenario).rotate_left(17);
        let a = splitmix64(&mut x);
        let mut y = a ^ k.wrapping_mul(0xD1342543DE82EF95);
        let b = splitmix64(&mut y);
        Rng::new(a ^ b.rotate_left(32) ^ k)
    }
    pub fn next_u64(&mut self) -> u64 {
        let result = self.s[1].wrapping_mul(5).rotate_left(7).wrapping_mul(9);
        let t = self.s[1] << 17;
        self.s[2] ^= self.s[0];
        self.s[3] ^= self.s[1];
        self.s[1] ^= self.s[2];
        self.s[0] ^= self.s[3];
        self.s[2] ^= t;
        self.s[3] = self.s[3].rotate_left(45);
        result
    }
    /// Uniform in [0, n) (n > 0); rejection sampling, no modulo bias.
    pub fn below(&mut self, n: u64) -> u64 {
        assert!(n > 0);
        let zone = u64::MAX - (u64::MAX % n);
        loop {
            let v = self.next_u64();
            if v < zone {
                return v % n;
            }
        }
    }
    pub fn usize_below(&mut self, n: usize) -> usize {
        self.below(n as u64) as usize
    }
    /// Uniform in [lo, hi] inclusive.
    pub fn range(&mut self, lo: u64, hi: u64) -> u64 {
        lo + self.below(hi - lo + 1)
    }
    pub fn chance(&mut self, num: u64, den: u64) -> bool {
        self.below(den) < num
    }
    pub fn pick<'a, T>(&mut self, xs: &'a [T]) -> &'a T {
        &xs[self.usize_below(xs.len())]
    }
    pub fn shuffle<T>(&mut self, xs: &mut [T]) {
        for i in (1..xs.len()).rev() {
            let j = self.usize_below(i + 1);
            xs.swap(i, j);
        }
    }
    /// A field element below 2^251 (all but a 2^-59 fraction of the field).
    pub fn felt(&mut self) -> Felt {
        let mut b = [0u8; 32];
        for i in 0..4 {
            b[i * 8..(i + 1) * 8].copy_from_slice(&self.next_u64().to_be_bytes());
        }
        b[0] &= 0x07;
        Felt::from_bytes_be(&b)
    }
    pub fn felt_nonzero(&mut self) -> Felt {
        loop {
            let f = self.felt();
            if f != Felt::ZERO {
                return f;
            }
        }
    }
    /// `k` distinct sorted values in [0, n).
    pub fn distinct_sorted(&mut self, k: usize, n: u64) -> Vec<u64> {
        assert!(k as u64 <= n);
        let mut set = std::collections::BTreeSet::new();
        if (k as u64) * 2 > n {
            // dense: choose what to leave out
            let mut all: Vec<u64> = (0..n).collect();
            self.shuffle(&mut all);
            all.truncate(k);
            all.sort();
            return all;
        }
        while set.len() < k {
            set.insert(self.below(n));
        }
        set.into_iter().collect()
    }
}
