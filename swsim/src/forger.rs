//! P_byz for the 7 real layouts: a forger that needs no satisfying trace.
//!
//! It commits *constant* columns (every Merkle level is one repeated node, so any domain size
//! costs O(height)), takes the public input of a shipped proof, co-executes with the real
//! transcript (it sees each challenge before choosing the next message) and uses the layout's own
//! evaluators as tools to learn the composition value V(z) its (AIR-violating) trace implies and
//! the DEEP values at the queries. It then cheats at exactly one seam. With every trace cell equal
//! to k, every mask opening is k whatever the layout's mask mapping is, so every trace DEEP term
//! vanishes; the composition openings are the only non-trivial part.
use crate::models::{self, bitrev, RefTable};
use crate::rng::Rng;
use serde::Serialize;
use starknet_crypto::Felt;
use swiftness_air::domains::StarkDomains;
use swiftness_air::layout::{GenericLayoutTrait, LayoutTrait};
use swiftness_air::public_memory::PublicInput;
use swiftness_air::trace;
use swiftness_commitment::{table, vector};
use swiftness_stark::config::StarkConfig;
use swiftness_stark::types::{StarkProof, StarkUnsentCommitment, StarkWitness};
use swiftness_transcript::transcript::Transcript;

#[derive(Debug, Clone, Copy, PartialEq, Serialize)]
pub enum Seam {
    /// open the committed composition truthfully: only the OODS equality stops it
    OodsEq,
    /// append a pair satisfying the OODS equality to the OODS vector
    OodsLen,
    /// claim composition openings that satisfy the OODS equality and decommit those values
    /// instead of the committed cells: only the composition Merkle decommitment stops it
    MerkleComp,
    /// claim lying openings, decommit truthfully, forge FRI layer-0 siblings after the queries
    FriAdaptive,
    /// as MerkleComp but with a nonce the reference PoW model rejects
    PowSkip,
    /// as OodsEq but the OODS values are absorbed... (control) nothing else: kept for the matrix
    LowSec,
}

pub const SEAMS: [Seam; 6] = [Seam::OodsEq, Seam::OodsLen, Seam::MerkleComp, Seam::FriAdaptive, Seam::PowSkip, Seam::LowSec];

pub struct Forgery {
    pub proof: StarkProof,
    pub security: Felt,
    /// V(z) != committed composition opening (true except with negligible probability)
    pub air_violated_at_z: bool,
}

fn steps_for(log_trace: u32) -> (Vec<u32>, u32) {
    // sum(steps) + bound = log_trace, steps in 1..=4, bound <= 6
    let mut steps = vec![0u32];
    let mut rem = log_trace;
    while rem > 6 {
        let s = rem.min(4).min(rem - 2).max(1);
        steps.push(s);
        rem -= s;
        if steps.len() >= 14 {
            break;
        }
    }
    if steps.len() == 1 {
        steps.push(1);
        rem -= 1;
    }
    (steps, rem)
}

pub fn forge<L: LayoutTrait + GenericLayoutTrait>(pi: &PublicInput, seam: Seam, rng: &mut Rng) -> Result<Forgery, String> {
    let cols1 = L::get_num_columns_first(pi).ok_or("no column count")? as u64;
    let cols2 = L::get_num_columns_second(pi).ok_or("no column count")? as u64;
    let log_n_steps: u32 = pi.log_n_steps.to_biguint().try_into().map_err(|_| "log_n_steps")?;
    let cpu_step = pi.dynamic_params.as_ref().map(|d| d.cpu_component_step as u32).unwrap_or(1);
    let log_trace = log_n_steps + 4 + cpu_step.trailing_zeros();
    let log_blowup = rng.range(1, 2) as u32;
    let log_eval = log_trace + log_blowup;
    let nvf = *rng.pick(&[0u64, 3, 1000, (log_eval + 1) as u64]);
    let (steps, log_last) = steps_for(log_trace);
    let pow_bits: u8 = 20;
    let mut n_queries: u64 = rng.range(2, 12);

    // ---- configuration ---------------------------------------------------------------------
    let vcfg = |h: u64| vector::config::Config { height: Felt::from(h), n_verifier_friendly_commitment_layers: Felt::from(nvf) };
    let tcfg = |c: u64, h: u64| table::config::Config { n_columns: Felt::from(c), vector: vcfg(h) };
    let mut inner = Vec::new();
    let mut h = log_eval;
    for s in &steps[1..] {
        h -= s;
        inner.push(tcfg(1u64 << s, h as u64));
    }
    let mut security = Felt::from(n_queries * log_blowup as u64 + pow_bits as u64);
    if seam == Seam::LowSec {
        n_queries -= 1;
    }
    let config = StarkConfig {
        traces: trace::config::Config { original: tcfg(cols1, log_eval as u64), interaction: tcfg(cols2, log_eval as u64) },
        composition: tcfg(2, log_eval as u64),
        fri: swiftness_fri::config::Config {
            log_input_size: Felt::from(log_eval as u64),
            n_layers: Felt::from(steps.len() as u64),
            inner_layers: inner,
            fri_step_sizes: steps.iter().map(|s| Felt::from(*s as u64)).collect(),
            log_last_layer_degree_bound: Felt::from(log_last as u64),
        },
        proof_of_work: swiftness_pow::config::Config { n_bits: pow_bits },
        log_trace_domain_size: Felt::from(log_trace as u64),
        n_queries: Felt::from(n_queries),
        log_n_cosets: Felt::from(log_blowup as u64),
        n_verifier_friendly_commitment_layers: Felt::from(nvf),
    };
    if seam != Seam::LowSec {
        security = Felt::from(n_queries * log_blowup as u64 + pow_bits as u64);
    }

    // ---- constant columns ----------------------------------------------------------------------
    let k = rng.felt();
    let (kappa0, kappa1) = (rng.felt(), rng.felt());
    let row1 = vec![k; cols1 as usize];
    let row2 = vec![k; cols2 as usize];
    let (root1, nodes1) = RefTable::constant_root(&row1, log_eval, nvf);
    let (root2, nodes2) = RefTable::constant_root(&row2, log_eval, nvf);
    let (root3, nodes3) = RefTable::constant_root(&[kappa0, kappa1], log_eval, nvf);

    // ---- co-execution with the real transcript ------------------------------------------------------
    let domains = StarkDomains::new(config.log_trace_domain_size, config.log_n_cosets);
    let digest = pi.get_hash(config.n_verifier_friendly_commitment_layers);
    let mut t = Transcript::new(digest);
    let unsent_traces = trace::UnsentCommitment { original: root1, interaction: root2 };
    let traces = L::traces_commit(&mut t, &unsent_traces, config.traces.clone());
    let alpha = t.random_felt_to_prover();
    let mut coeffs = Vec::with_capacity(L::N_CONSTRAINTS);
    let mut c = Felt::ONE;
    for _ in 0..L::N_CONSTRAINTS {
        coeffs.push(c);
        c *= alpha;
    }
    t.read_felt_from_prover(&root3);
    let z = t.random_felt_to_prover();
    let mask = vec![k; L::MASK_SIZE];
    let v_z = L::eval_composition_polynomial(&traces.interaction_elements, pi, &mask, &coeffs, &z, &domains.trace_domain_size, &domains.trace_generator)
        .map_err(|e| format!("composition tool: {e:?}"))?;
    let air_violated_at_z = v_z != kappa0 + kappa1 * z;
    // claimed composition openings
    let truthful = [kappa0, kappa1];
    let lying = [v_z - kappa1 * z, kappa1];
    let claimed = match seam {
        Seam::OodsEq | Seam::OodsLen | Seam::LowSec => truthful,
        _ => lying,
    };
    let mut oods: Vec<Felt> = mask.clone();
    oods.extend_from_slice(&claimed);
    if seam == Seam::OodsLen {
        oods.extend_from_slice(&lying);
    }
    t.read_felt_vector_from_prover(&oods);
    let beta = t.random_felt_to_prover();
    let n_deep = L::MASK_SIZE + L::CONSTRAINT_DEGREE;
    let mut deep_coeffs = Vec::with_capacity(n_deep);
    let mut c = Felt::ONE;
    for _ in 0..n_deep {
        deep_coeffs.push(c);
        c *= beta;
    }

    // ---- FRI on the zero function ---------------------------------------------------------------------
    let mut fri_roots = Vec::new();
    let mut fri_nodes = Vec::new();
    let mut eval_points = Vec::new();
    let mut hh = log_eval;
    for s in &steps[1..] {
        hh -= s;
        let (r, n) = RefTable::constant_root(&vec![Felt::ZERO; 1usize << s], hh, nvf);
        t.read_felt_from_prover(&r);
        eval_points.push(t.random_felt_to_prover());
        fri_roots.push(r);
        fri_nodes.push((n, hh));
    }
    let last_layer = vec![Felt::ZERO; 1usize << log_last];
    t.read_felt_vector_from_prover(&last_layer);

    // ---- proof of work --------------------------------------------------------------------------------------
    let d = t.digest().to_bytes_be();
    let mut nonce = models::pow_grind(&d, pow_bits, 0);
    if seam == Seam::PowSkip {
        nonce = 0;
        while models::pow_valid(&d, pow_bits, nonce) {
            nonce += 1;
        }
    }
    t.read_uint64_from_prover(nonce);
    let mut m = models::RefTranscript { digest: *t.digest(), counter: 0 };
    let (_, queries) = models::ref_queries(&mut m, n_queries, log_eval);

    // ---- decommitment ---------------------------------------------------------------------------------------------
    let nq = queries.len();
    let orig_vals = vec![k; nq * cols1 as usize];
    let inter_vals = vec![k; nq * cols2 as usize];
    let comp_cells = match seam {
        Seam::MerkleComp | Seam::PowSkip => lying,
        _ => truthful,
    };
    let mut comp_vals = Vec::with_capacity(2 * nq);
    for _ in 0..nq {
        comp_vals.extend_from_slice(&comp_cells);
    }
    let auth = |nodes: &Vec<Felt>, height: u32| models::constant_auth(nodes, height, &queries);
    // FRI witness: zero function everywhere
    let mut layers = Vec::new();
    let mut cur = queries.clone();
    for (i, s) in steps[1..].iter().enumerate() {
        let w = 1u64 << s;
        let mut cosets: Vec<u64> = cur.iter().map(|q| q >> s).collect();
        cosets.dedup();
        let mut leaves = Vec::new();
        for cst in &cosets {
            for j in 0..w {
                if cur.binary_search(&(cst * w + j)).is_err() {
                    leaves.push(Felt::ZERO);
                }
            }
        }
        let (nodes, hgt) = &fri_nodes[i];
        layers.push((leaves, models::constant_auth(nodes, *hgt, &cosets), cosets.clone()));
        cur = cosets;
    }
    if seam == Seam::FriAdaptive {
        // true DEEP values at the queries (computed with the layout's own evaluator as a tool)
        let wg = models::subgroup_generator(log_eval);
        let step = steps[1];
        let w = 1usize << step;
        let mut column_values = vec![k; (cols1 + cols2) as usize];
        column_values.push(kappa0);
        column_values.push(kappa1);
        let mut leaves = Vec::new();
        for cst in &layers[0].2 {
            let idxs: Vec<u64> = (0..w as u64).map(|j| cst * w as u64 + j).collect();
            let us: Vec<Felt> = idxs.iter().map(|i| wg.pow(bitrev(*i, log_eval) as u128)).collect();
            let queried: Vec<bool> = idxs.iter().map(|i| queries.binary_search(i).is_ok()).collect();
            let mut vals = vec![Felt::ZERO; w];
            for (j, i) in idxs.iter().enumerate() {
                if queried[j] {
                    let point = Felt::THREE * wg.pow(bitrev(*i, log_eval) as u128);
                    vals[j] = L::eval_oods_polynomial(pi, &column_values, &oods, &deep_coeffs, &point, &z, &domains.trace_generator)
                        .map_err(|e| format!("DEEP tool: {e:?}"))?;
                }
            }
            if let Some(free) = queried.iter().rposition(|q| !*q) {
                let fold = |v: &[Felt]| -> Felt {
                    let cf = models::lagrange_interpolate(&us, v);
                    let mut acc = Felt::ZERO;
                    let mut bp = Felt::ONE;
                    for cc in cf {
                        acc += bp * cc;
                        bp *= eval_points[0];
                    }
                    acc
                };
                let mut unit = vec![Felt::ZERO; w];
                unit[free] = Felt::ONE;
                let w_free = fold(&unit);
                let rest = fold(&vals);
                if w_free != Felt::ZERO {
                    vals[free] = Felt::ZERO - rest * models::inv(w_free);
                }
            }
            for (v, q) in vals.iter().zip(queried.iter()) {
                if !*q {
                    leaves.push(*v);
                }
            }
        }
        layers[0].0 = leaves;
    }

    let tw = |a: Vec<Felt>| table::types::Witness { vector: vector::types::Witness { authentications: a } };
    let proof = StarkProof {
        config,
        public_input: serde_json::from_value(serde_json::to_value(pi).map_err(|e| e.to_string())?).map_err(|e| e.to_string())?,
        unsent_commitment: StarkUnsentCommitment {
            traces: unsent_traces,
            composition: root3,
            oods_values: oods,
            fri: swiftness_fri::types::UnsentCommitment { inner_layers: fri_roots, last_layer_coefficients: last_layer },
            proof_of_work: swiftness_pow::pow::UnsentCommitment { nonce },
        },
        witness: StarkWitness {
            traces_decommitment: trace::Decommitment {
                original: table::types::Decommitment { values: orig_vals },
                interaction: table::types::Decommitment { values: inter_vals },
            },
            traces_witness: trace::Witness { original: tw(auth(&nodes1, log_eval)), interaction: tw(auth(&nodes2, log_eval)) },
            composition_decommitment: table::types::Decommitment { values: comp_vals },
            composition_witness: tw(auth(&nodes3, log_eval)),
            fri_witness: swiftness_fri::types::Witness {
                layers: layers
                    .into_iter()
                    .map(|(leaves, a, _)| swiftness_fri::types::LayerWitness { leaves, table_witness: tw(a) })
                    .collect(),
            },
        },
    };
    Ok(Forgery { proof, security, air_violated_at_z })
}
