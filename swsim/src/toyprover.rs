//! P_hon / P_byz for ToyLayout: a complete STARK prover built from the reference models.
//! The honest path is one deviation-free execution of `prove`; Byzantine strategies are the same
//! prover with exactly one `Cheat` (so every cheating run has an accepted twin).
use crate::image;
use crate::models::{self, bitrev, FriProver, FriShape, RefTable, RefTranscript};
use crate::proofrun::Base;
use crate::rng::Rng;
use crate::toy;
use serde::{Deserialize, Serialize};
use serde_json::json;
use starknet_crypto::Felt;
use swiftness_air::public_memory::PublicInput;
use swiftness_air::trace;
use swiftness_air::types::{AddrValue, Page};
use swiftness_commitment::{table, vector};
use swiftness_stark::config::StarkConfig;
use swiftness_stark::types::{StarkProof, StarkUnsentCommitment, StarkWitness};

#[derive(Debug, Clone, Serialize, Deserialize, PartialEq)]
pub struct ToyParams {
    pub log_trace: u32,
    pub log_blowup: u32,
    pub steps: Vec<u32>,
    pub log_last: u32,
    pub n_queries: u64,
    pub pow_bits: u8,
    pub n_friendly: u64,
    pub seed: u64,
}

impl ToyParams {
    pub fn draw(rng: &mut Rng, quick: bool) -> Self {
        let max_t = if quick { 6 } else { 8 };
        let log_trace = rng.range(1, max_t) as u32;
        // split log_trace into steps (each 1..=4) and a last-layer bound
        let mut steps = vec![0u32];
        let mut remaining = log_trace;
        loop {
            let s = rng.range(1, remaining.min(4) as u64) as u32;
            steps.push(s);
            remaining -= s;
            if remaining == 0 || steps.len() >= 15 || rng.chance(1, 3) {
                break;
            }
        }
        let log_last = remaining;
        let log_blowup = rng.range(1, 4) as u32;
        let n_queries = match rng.below(6) {
            0 => 1,
            1 => rng.range(2, 4),
            2 => rng.range(40, 48),
            _ => rng.range(5, 30),
        };
        let height = log_trace + log_blowup;
        let n_friendly = match rng.below(5) {
            0 => 0,
            1 => (height + 1) as u64,        // everything friendly incl. rows
            2 => height as u64,              // rows masked, tree friendly
            3 => 1000,
            _ => rng.range(0, (height + 2) as u64),
        };
        ToyParams { log_trace, log_blowup, steps, log_last, n_queries, pow_bits: 20, n_friendly, seed: rng.next_u64() }
    }
    pub fn fri_shape(&self) -> FriShape {
        FriShape { log_input: self.log_trace + self.log_blowup, steps: self.steps.clone(), log_last_bound: self.log_last, n_friendly: self.n_friendly }
    }
    pub fn shape_class(&self) -> String {
        format!("t{}b{}s{:?}l{}q{}f{}", self.log_trace, self.log_blowup, &self.steps[1..], self.log_last, self.n_queries, self.n_friendly)
    }
}

/// One deviation from the honest prover.
#[derive(Debug, Clone, Serialize, Deserialize, PartialEq)]
#[serde(tag = "cheat")]
pub enum Cheat {
    None,
    /// Commit a trace that violates the transition constraint at `row`; open everything
    /// truthfully (composition = best low-degree approximation). Stopped by the OODS equality.
    OodsEq { row: usize },
    /// As OodsEq, but append a pair (c0, c1) with c0 + c1 z = V(z) to the OODS vector so that the
    /// pair compared with the trace composition is not the pair the DEEP quotient opens.
    OodsLen { row: usize },
    /// Violating trace; open composition values (c0,c1) with c0 + c1 z = V(z) != truth; decommit
    /// the composition table with values chosen after seeing the queries so that the DEEP
    /// quotient looks like an honest low-degree function at the queried points.
    MerkleLie { row: usize, table: u8 },
    /// Violating trace, composition openings lie (DEEP not low degree); FRI layers are forged
    /// adaptively after the queries are known: inner-layer sibling leaves are chosen so every
    /// fold lands on a fixed last-layer polynomial; authentication paths are bogus.
    FriAdaptive { row: usize },
    /// Violating trace + lying composition opening; declares fri.log_input_size larger than the
    /// evaluation-domain exponent by `delta` with self-consistent FRI heights.
    FriSize { row: usize, delta: u32 },
    /// Honestly folds a DEEP function of too high degree and sends the last layer truncated to
    /// 2^bound coefficients.
    FriTrunc { row: usize },
    /// As FriTrunc but sends the untruncated last layer (length != 2^bound).
    FriLong { row: usize },
    /// Uses a nonce the reference PoW model rejects.
    PowSkip,
    /// Declares fewer PoW bits / queries than the requested security.
    LowSec,
    /// Zero queries.
    NqZero { row: usize },
    /// Column-count declarations inconsistent with the layout.
    ColsSkew,
    /// n_verifier_friendly_commitment_layers declared differently for one table.
    NvfSkew,
    /// Changes the claimed output y in the public input after proving (statement splice).
    Splice,
    /// Proves honestly under a configuration that violates one declared bound (FRI step above 4,
    /// blow-up exponent 0, more than 48 queries, fewer than 20 PoW bits, 16 layers, last-layer
    /// bound 2^16): everything is self-consistent, only configuration validation stops it.
    BadShape { kind: String },
    /// log_n_cosets declared as `value` (0, >16, 2^64, p-k) with dependent numbers re-declared
    /// consistently modulo p.
    BlowupModP { row: usize, value_hex: String },
}

pub struct Artifacts {
    pub proof: StarkProof,
    /// exact ground truth for the C01 oracle
    pub truth: Truth,
    pub params: ToyParams,
    pub security: Felt,
    pub queries: Vec<u64>,
    pub raw_queries: Vec<u64>,
    pub transcript_log: Vec<crate::models::RefTranscript>,
}

#[derive(Debug, Clone, Serialize)]
pub struct Truth {
    /// does the committed trace satisfy the AIR at the OODS point (composition(trace openings)
    /// == committed composition's opening)?
    pub air_holds_at_z: bool,
    /// are all committed columns (trace + composition) of degree < trace length over the
    /// evaluation domain fixed by trace length and blow-up?
    pub columns_low_degree: bool,
    /// blow-up factor at least 2 and FRI degree bound equal to the trace length?
    pub params_sound: bool,
    /// requested security met by the declared parameters read as integers?
    pub security_met: bool,
    /// statement (public input) is the one that was proven?
    pub statement_unchanged: bool,
    pub pow_valid: bool,
    /// the cheat is one that only the queries can detect and, for this query set, they cannot
    /// (legitimately undetectable instance: no verdict is required)
    pub undetectable_by_queries: bool,
}

impl Truth {
    pub fn should_be_rejected(&self) -> bool {
        !(self.air_holds_at_z && self.columns_low_degree && self.params_sound && self.security_met && self.statement_unchanged && self.pow_valid)
    }
}

// ---- polynomial helpers ---------------------------------------------------------------------

fn intt(vals: &mut [Felt], log_n: u32) {
    let w = models::subgroup_generator(log_n);
    let winv = models::inv(w);
    models::ntt(vals, winv);
    let ninv = models::inv(models::pow2(log_n as u64));
    for v in vals.iter_mut() {
        *v *= ninv;
    }
}

/// Evaluations of `coeffs` at shift*w^k, k = 0..2^log_n (natural order).
fn lde_nat(coeffs: &[Felt], log_n: u32, shift: Felt) -> Vec<Felt> {
    let n = 1usize << log_n;
    let mut a = vec![Felt::ZERO; n];
    let mut s = Felt::ONE;
    for (j, c) in coeffs.iter().enumerate() {
        a[j % n] += *c * s;
        s *= shift;
    }
    models::ntt(&mut a, models::subgroup_generator(log_n));
    a
}

fn to_bitrev(nat: &[Felt]) -> Vec<Felt> {
    let bits = nat.len().trailing_zeros();
    (0..nat.len()).map(|i| nat[bitrev(i as u64, bits) as usize]).collect()
}

fn batch_inverse(xs: &[Felt]) -> Vec<Felt> {
    let mut prefix = Vec::with_capacity(xs.len());
    let mut acc = Felt::ONE;
    for x in xs {
        prefix.push(acc);
        acc *= x;
    }
    let mut inv = models::inv(acc);
    let mut out = vec![Felt::ZERO; xs.len()];
    for i in (0..xs.len()).rev() {
        out[i] = inv * prefix[i];
        inv *= xs[i];
    }
    out
}

fn degree(coeffs: &[Felt]) -> Option<usize> {
    coeffs.iter().rposition(|c| *c != Felt::ZERO)
}

// ---- public input / digest -------------------------------------------------------------------

pub fn toy_public_input(log_trace: u32, x0: Felt, y: Felt) -> PublicInput {
    PublicInput {
        log_n_steps: Felt::from(log_trace as u64),
        range_check_min: Felt::ZERO,
        range_check_max: Felt::ONE,
        layout: toy::toy_layout_code(),
        dynamic_params: None,
        segments: vec![],
        padding_addr: Felt::ZERO,
        padding_value: Felt::ZERO,
        main_page: Page(vec![
            AddrValue { address: Felt::ZERO, value: x0 },
            AddrValue { address: Felt::ONE, value: y },
        ]),
        continuous_page_headers: vec![],
    }
}

// ---- the prover ------------------------------------------------------------------------------

pub const BAD_SHAPES_QUICK: [&str; 8] = ["step5", "step6", "step8", "blowup0", "queries49", "queries64", "powbits19", "step5-many-queries"];
pub const BAD_SHAPES_THOROUGH: [&str; 3] = ["layers16", "lastbound16", "step12"];

fn bad_shape(base: &ToyParams, kind: &str) -> ToyParams {
    let mut p = base.clone();
    let one_step = |p: &mut ToyParams, s: u32| {
        p.log_trace = p.log_trace.max(s);
        p.steps = vec![0, s];
        p.log_last = p.log_trace - s;
    };
    match kind {
        "step5" => one_step(&mut p, 5),
        "step6" => one_step(&mut p, 6),
        "step8" => one_step(&mut p, 8),
        "step12" => {
            one_step(&mut p, 12);
            p.n_friendly = 0;
        }
        "step5-many-queries" => {
            one_step(&mut p, 5);
            p.n_queries = 48;
        }
        "blowup0" => p.log_blowup = 0,
        "queries49" => p.n_queries = 49,
        "queries64" => p.n_queries = 64,
        "powbits19" => p.pow_bits = 19,
        "layers16" => {
            p.log_trace = 15;
            p.steps = std::iter::once(0).chain(std::iter::repeat(1).take(15)).collect();
            p.log_last = 0;
            p.log_blowup = 1;
            p.n_friendly = 0;
        }
        "lastbound16" => {
            p.log_trace = 17;
            p.steps = vec![0, 1];
            p.log_last = 16;
            p.log_blowup = 1;
            p.n_friendly = 0;
        }
        _ => {}
    }
    p
}

pub fn prove(params: &ToyParams, cheat: &Cheat) -> Result<Artifacts, String> {
    let shaped;
    let params = if let Cheat::BadShape { kind } = cheat {
        shaped = bad_shape(params, kind);
        &shaped
    } else {
        params
    };
    let p = params;
    let mut rng = Rng::new(p.seed);
    let t = p.log_trace;
    let c = p.log_blowup;
    let n = 1usize << t;
    let log_eval = t + c;
    let big_n = 1usize << log_eval;
    let g = models::subgroup_generator(t);
    let three = Felt::THREE;

    // --- trace ---------------------------------------------------------------------------
    let bad_row = match cheat {
        Cheat::OodsEq { row } | Cheat::OodsLen { row } | Cheat::MerkleLie { row, .. } | Cheat::FriAdaptive { row }
        | Cheat::FriSize { row, .. } | Cheat::FriTrunc { row } | Cheat::FriLong { row } | Cheat::NqZero { row }
        | Cheat::BlowupModP { row, .. } => Some(*row % (n - 1).max(1)),
        _ => None,
    };
    let x0 = rng.felt();
    let mut a = vec![Felt::ZERO; n];
    let mut b = vec![Felt::ZERO; n];
    a[0] = x0;
    for i in 0..n {
        b[i] = rng.felt();
        if i + 1 < n {
            a[i + 1] = a[i] * a[i] + b[i];
            if bad_row == Some(i) {
                a[i + 1] += Felt::ONE; // violates C0 at row i
            }
        }
    }
    let mut y = a[n - 1];
    if bad_row.is_some() && n == 1 {
        y += Felt::ONE; // single-row trace: violate the boundary constraint instead
    }
    let trace_violates = bad_row.is_some();
    let mut a_c = a.clone();
    let mut b_c = b.clone();
    intt(&mut a_c, t);
    intt(&mut b_c, t);
    let a_nat = lde_nat(&a_c, log_eval, three);
    let b_nat = lde_nat(&b_c, log_eval, three);
    let orig_rows: Vec<Vec<Felt>> = {
        let (ab, bb) = (to_bitrev(&a_nat), to_bitrev(&b_nat));
        (0..big_n).map(|i| vec![ab[i], bb[i]]).collect()
    };
    let orig_table = RefTable::build(orig_rows, p.n_friendly);

    let mut public_input = toy_public_input(t, x0, y);
    let seed_digest = crate::models_full::ref_digest(&public_input, Felt::from(p.n_friendly));
    let mut tr = RefTranscript::new(seed_digest);
    let mut tlog = vec![tr.clone()];
    tr.absorb(&[orig_table.root()]);
    let gamma = tr.squeeze();

    // --- interaction trace -----------------------------------------------------------------
    let mut cc = vec![Felt::ZERO; n];
    cc[0] = gamma - x0;
    for i in 0..n.saturating_sub(1) {
        cc[i + 1] = cc[i] * (gamma - a[i + 1]);
    }
    let mut c_c = cc.clone();
    intt(&mut c_c, t);
    let c_nat = lde_nat(&c_c, log_eval, three);
    let inter_rows: Vec<Vec<Felt>> = to_bitrev(&c_nat).into_iter().map(|v| vec![v]).collect();
    let inter_table = RefTable::build(inter_rows, p.n_friendly);
    tr.absorb(&[inter_table.root()]);
    tlog.push(tr.clone());
    let alpha = tr.squeeze();
    let mut coeffs = vec![Felt::ONE; 5];
    for i in 1..5 {
        coeffs[i] = coeffs[i - 1] * alpha;
    }

    // --- composition -----------------------------------------------------------------------
    let w = models::subgroup_generator(log_eval);
    let shift_rows = 1usize << c; // g = w^{2^c}
    let g_last = g.pow((n - 1) as u128);
    let mut xs = Vec::with_capacity(big_n);
    let mut x = three;
    for _ in 0..big_n {
        xs.push(x);
        x *= w;
    }
    let three_n = three.pow(n as u128);
    let wn = w.pow(n as u128);
    let mut zn1 = Vec::with_capacity(big_n);
    let mut cur = three_n;
    for _ in 0..big_n {
        zn1.push(cur - Felt::ONE);
        cur *= wn;
    }
    let inv_zn1 = batch_inverse(&zn1);
    let first_den: Vec<Felt> = xs.iter().map(|x| *x - Felt::ONE).collect();
    let last_fac: Vec<Felt> = xs.iter().map(|x| *x - g_last).collect();
    let inv_first = batch_inverse(&first_den);
    let inv_last = batch_inverse(&last_fac);
    let mut h_nat = Vec::with_capacity(big_n);
    for k in 0..big_n {
        let k1 = (k + shift_rows) % big_n;
        let (a0, a1, b0, c0, c1) = (a_nat[k], a_nat[k1], b_nat[k], c_nat[k], c_nat[k1]);
        let r0 = (a1 - a0 * a0 - b0) * last_fac[k] * inv_zn1[k];
        let r1 = (a0 - x0) * inv_first[k];
        let r2 = (a0 - y) * inv_last[k];
        let r3 = (c1 - c0 * (gamma - a1)) * last_fac[k] * inv_zn1[k];
        let r4 = (c0 - (gamma - x0)) * inv_first[k];
        h_nat.push(coeffs[0] * r0 + coeffs[1] * r1 + coeffs[2] * r2 + coeffs[3] * r3 + coeffs[4] * r4);
    }
    // coefficients of H(3u), then of H(x)
    let mut h_c = h_nat.clone();
    intt(&mut h_c, log_eval);
    let inv3 = models::inv(three);
    let mut s = Felt::ONE;
    for hc in h_c.iter_mut() {
        *hc *= s;
        s *= inv3;
    }
    if !trace_violates {
        if degree(&h_c).map(|d| d >= 2 * n).unwrap_or(false) {
            return Err(format!("honest composition has degree {:?} >= 2n", degree(&h_c)));
        }
    } else {
        // a cheating prover must still commit to *some* low-degree composition columns: it keeps
        // the part of degree < 2n (the rest cannot be committed without failing FRI)
        for hc in h_c.iter_mut().skip(2 * n) {
            *hc = Felt::ZERO;
        }
    }
    let h0_c: Vec<Felt> = h_c.iter().step_by(2).cloned().collect();
    let h1_c: Vec<Felt> = h_c.iter().skip(1).step_by(2).cloned().collect();
    let h0_nat = lde_nat(&h0_c, log_eval, three);
    let h1_nat = lde_nat(&h1_c, log_eval, three);
    let comp_rows: Vec<Vec<Felt>> = {
        let (x0b, x1b) = (to_bitrev(&h0_nat), to_bitrev(&h1_nat));
        (0..big_n).map(|i| vec![x0b[i], x1b[i]]).collect()
    };
    let comp_table = RefTable::build(comp_rows, p.n_friendly);
    tr.absorb(&[comp_table.root()]);
    tlog.push(tr.clone());
    let z = tr.squeeze();

    // --- OODS ------------------------------------------------------------------------------
    let z2 = z * z;
    let mask_true = vec![
        models::eval_poly(&a_c, z),
        models::eval_poly(&a_c, z * g),
        models::eval_poly(&b_c, z),
        models::eval_poly(&c_c, z),
        models::eval_poly(&c_c, z * g),
    ];
    let h_true = [models::eval_poly(&h0_c, z2), models::eval_poly(&h1_c, z2)];
    let v_z = toy::toy_composition(&mask_true, &coeffs, gamma, x0, y, z, Felt::from(n as u64), g)
        .map_err(|_| "division by zero at OODS point".to_string())?;
    let air_holds_at_z = v_z == h_true[0] + h_true[1] * z;
    if !trace_violates && !air_holds_at_z {
        return Err("honest trace fails the AIR at z (prover self-check)".into());
    }
    // what the prover claims for the composition openings
    let lie_pair = {
        // (c0, c1) with c0 + c1 z = V(z), c1 kept truthful
        let c1 = h_true[1];
        (v_z - c1 * z, c1)
    };
    let opens_lie = matches!(
        cheat,
        Cheat::MerkleLie { .. } | Cheat::FriAdaptive { .. } | Cheat::FriSize { .. } | Cheat::FriTrunc { .. } | Cheat::FriLong { .. } | Cheat::NqZero { .. } | Cheat::BlowupModP { .. }
    );
    let h_open = if opens_lie { [lie_pair.0, lie_pair.1] } else { h_true };
    let mut oods: Vec<Felt> = mask_true.clone();
    oods.extend_from_slice(&h_open);
    if let Cheat::OodsLen { .. } = cheat {
        oods.push(lie_pair.0);
        oods.push(lie_pair.1);
    }
    tr.absorb(&oods);
    tlog.push(tr.clone());
    let beta = tr.squeeze();
    let mut dc = vec![Felt::ONE; 7];
    for i in 1..7 {
        dc[i] = dc[i - 1] * beta;
    }

    // --- DEEP quotient -----------------------------------------------------------------------
    let den_z: Vec<Felt> = xs.iter().map(|x| *x - z).collect();
    let den_gz: Vec<Felt> = xs.iter().map(|x| *x - z * g).collect();
    let den_z2: Vec<Felt> = xs.iter().map(|x| *x - z2).collect();
    let (iz, igz, iz2) = (batch_inverse(&den_z), batch_inverse(&den_gz), batch_inverse(&den_z2));
    let deep_at = |k: usize, cols: [Felt; 5]| -> Felt {
        dc[0] * (cols[0] - oods[0]) * iz[k]
            + dc[1] * (cols[0] - oods[1]) * igz[k]
            + dc[2] * (cols[1] - oods[2]) * iz[k]
            + dc[3] * (cols[2] - oods[3]) * iz[k]
            + dc[4] * (cols[2] - oods[4]) * igz[k]
            + dc[5] * (cols[3] - oods[5]) * iz2[k]
            + dc[6] * (cols[4] - oods[6]) * iz2[k]
    };
    let deep_nat: Vec<Felt> = (0..big_n).map(|k| deep_at(k, [a_nat[k], b_nat[k], c_nat[k], h0_nat[k], h1_nat[k]])).collect();
    let mut q_c = deep_nat.clone();
    intt(&mut q_c, log_eval);
    let deep_low_degree = degree(&q_c).map(|d| d < n).unwrap_or(true);
    if !opens_lie && !matches!(cheat, Cheat::OodsLen { .. } | Cheat::OodsEq { .. }) && !deep_low_degree {
        return Err(format!("honest DEEP quotient has degree {:?} >= n", degree(&q_c)));
    }

    // --- FRI commit ----------------------------------------------------------------------------
    let shape = p.fri_shape();
    let last_len = match cheat {
        Cheat::FriLong { .. } => Some(q_c.len() >> shape.sum_steps()),
        _ => None,
    };
    // Cheats that decommit values chosen after the queries commit FRI to the DEEP function of the
    // *shifted* composition columns h~_j = h_j + (lie_j - h_j(z^2)), which is low degree.
    let delta = [h_open[0] - h_true[0], h_open[1] - h_true[1]];
    let fri_input = match cheat {
        Cheat::MerkleLie { .. } | Cheat::FriAdaptive { .. } => {
            let tilde_nat: Vec<Felt> = (0..big_n).map(|k| deep_at(k, [a_nat[k], b_nat[k], c_nat[k], h0_nat[k] + delta[0], h1_nat[k] + delta[1]])).collect();
            let mut t_c = tilde_nat;
            intt(&mut t_c, log_eval);
            if degree(&t_c).map(|d| d >= n).unwrap_or(false) {
                return Err(format!("shifted DEEP function has degree {:?} >= n (prover self-check)", degree(&t_c)));
            }
            t_c
        }
        _ => q_c.clone(),
    };
    let fri = FriProver::commit(shape.clone(), fri_input, &mut tr, last_len);
    tlog.push(tr.clone());

    // --- proof of work ---------------------------------------------------------------------------
    let digest_bytes = tr.digest.to_bytes_be();
    let mut pow_bits = p.pow_bits;
    let mut n_queries = p.n_queries;
    let mut security = Felt::from(p.n_queries * p.log_blowup as u64 + p.pow_bits as u64);
    let mut security_met = true;
    if let Cheat::LowSec = cheat {
        // keep pow_bits >= 20 (config validation) but lower the query count if possible,
        // otherwise lower nothing and ask for more security than provided
        if n_queries > 1 {
            n_queries -= 1;
        } else {
            // nothing left to lower: the caller asks for one bit more than the proof provides
            pow_bits = 20;
            security += Felt::ONE;
        }
        security_met = false;
    }
    let mut nonce = models::pow_grind(&digest_bytes, pow_bits, 0);
    let mut pow_valid = true;
    if let Cheat::PowSkip = cheat {
        // first nonce the reference model rejects
        nonce = 0;
        while models::pow_valid(&digest_bytes, pow_bits, nonce) {
            nonce += 1;
        }
        pow_valid = false;
    }
    tr.absorb_u64(nonce);
    tlog.push(tr.clone());
    if let Cheat::NqZero { .. } = cheat {
        n_queries = 0;
    }
    let (raw_queries, queries) = models::ref_queries(&mut tr, n_queries, log_eval);

    // --- decommitment ----------------------------------------------------------------------------
    let (mut orig_vals, orig_auth) = orig_table.open(&queries);
    let (inter_vals, inter_auth) = inter_table.open(&queries);
    let (mut comp_vals, comp_auth) = comp_table.open(&queries);
    let (_fri_values, mut fri_layers, _) = fri.open(&queries);

    // FriTrunc: the truncated last layer is caught only if it disagrees with the fully folded
    // function at some final-layer query point (exact oracle, as in C07)
    let mut undetectable_by_queries = false;
    if let Cheat::FriTrunc { .. } = cheat {
        let n_inner = p.steps.len() - 1;
        let full = &fri.coeffs[n_inner];
        let mut pts: Vec<u64> = queries.clone();
        let mut log_size = log_eval;
        for st in &p.steps[1..] {
            pts = pts.iter().map(|q| q >> st).collect();
            pts.dedup();
            log_size -= st;
        }
        let wl = models::subgroup_generator(log_size);
        undetectable_by_queries = !pts.iter().any(|q| {
            let yv = wl.pow(bitrev(*q, log_size) as u128);
            models::eval_poly(full, yv) != models::eval_poly(&fri.last_layer, yv)
        });
    }
    let mut lie_in_original = false;
    let mut columns_low_degree = true; // committed columns are interpolants of degree < n by construction
    let mut params_sound = true;
    let mut statement_unchanged = true;
    let mut config_overrides: Vec<(String, Felt)> = Vec::new();

    match cheat {
        Cheat::MerkleLie { table, .. } => {
            if *table % 2 == 0 {
                // decommit the shifted composition cells (the committed table holds the true ones)
                for (i, v) in comp_vals.iter_mut().enumerate() {
                    *v += delta[i % 2];
                }
            } else {
                // keep the composition truthful, lie in trace column a instead so that the DEEP
                // value at each query equals the committed low-degree function
                lie_in_original = true;
            }
        }
        Cheat::FriAdaptive { .. } => {
            // All trace/composition cells are decommitted truthfully, so the FRI input values at the
            // queries are those of the true (high-degree) DEEP function. Layer-0 sibling leaves are
            // chosen now, after the queries are known, so that every fold lands on the committed
            // low-degree function; the authentication paths cannot match any more.
            let step = p.steps[1];
            let w = 1usize << step;
            let wg = models::subgroup_generator(log_eval);
            let mut leaves = Vec::new();
            let mut cosets: Vec<u64> = queries.iter().map(|q| q >> step).collect();
            cosets.dedup();
            for c in &cosets {
                let idxs: Vec<u64> = (0..w as u64).map(|j| c * w as u64 + j).collect();
                let us: Vec<Felt> = idxs.iter().map(|i| wg.pow(bitrev(*i, log_eval) as u128)).collect();
                let queried: Vec<bool> = idxs.iter().map(|i| queries.binary_search(i).is_ok()).collect();
                let mut vals: Vec<Felt> = idxs
                    .iter()
                    .zip(queried.iter())
                    .map(|(i, q)| if *q { deep_nat[bitrev(*i, log_eval) as usize] } else { fri.layer_evals[0][*i as usize] })
                    .collect();
                if let Some(free) = queried.iter().rposition(|q| !*q) {
                    // fold weights: F(v) = 2^s * sum_m b^m coeff_m(interpolant of v)
                    let fold = |v: &[Felt]| -> Felt {
                        let cf = models::lagrange_interpolate(&us, v);
                        let mut acc = Felt::ZERO;
                        let mut bp = Felt::ONE;
                        for c in cf {
                            acc += bp * c;
                            bp *= fri.eval_points[0];
                        }
                        acc * models::pow2(step as u64)
                    };
                    let y = us[0].pow(w as u128);
                    let target = models::eval_poly(&fri.coeffs[1], y);
                    let mut unit = vec![Felt::ZERO; w];
                    unit[free] = Felt::ONE;
                    let w_free = fold(&unit);
                    vals[free] = Felt::ZERO;
                    let rest = fold(&vals);
                    if w_free != Felt::ZERO {
                        vals[free] = (target - rest) * models::inv(w_free);
                    }
                }
                for (v, q) in vals.iter().zip(queried.iter()) {
                    if !*q {
                        leaves.push(*v);
                    }
                }
            }
            fri_layers[0].0 = leaves;
        }
        Cheat::Splice => {
            public_input.main_page.0[1].value += Felt::ONE;
            statement_unchanged = false;
        }
        Cheat::BadShape { .. } => {
            params_sound = false;
        }
        Cheat::ColsSkew => {
            config_overrides.push(("config.traces.original.n_columns".into(), Felt::from(3u64)));
            params_sound = false;
        }
        Cheat::NvfSkew => {
            config_overrides.push((
                "config.traces.interaction.vector.n_verifier_friendly_commitment_layers".into(),
                Felt::from(p.n_friendly + 1),
            ));
            params_sound = false;
        }
        _ => {}
    }
    let _ = &mut columns_low_degree;
    if lie_in_original {
        for (qi, q) in queries.iter().enumerate() {
            let k = bitrev(*q, log_eval) as usize;
            let num = (dc[5] * delta[0] + dc[6] * delta[1]) * iz2[k];
            let den = dc[0] * iz[k] + dc[1] * igz[k];
            if den != Felt::ZERO {
                orig_vals[2 * qi] += num * models::inv(den);
            }
        }
    }

    // --- assemble ----------------------------------------------------------------------------------
    let vcfg = |h: u64| vector::config::Config { height: Felt::from(h), n_verifier_friendly_commitment_layers: Felt::from(p.n_friendly) };
    let tcfg = |cols: u64, h: u64| table::config::Config { n_columns: Felt::from(cols), vector: vcfg(h) };
    let mut inner = Vec::new();
    let mut h = log_eval;
    for s in &p.steps[1..] {
        h -= s;
        inner.push(tcfg(1u64 << s, h as u64));
    }
    let config = StarkConfig {
        traces: trace::config::Config { original: tcfg(2, log_eval as u64), interaction: tcfg(1, log_eval as u64) },
        composition: tcfg(2, log_eval as u64),
        fri: swiftness_fri::config::Config {
            log_input_size: Felt::from(log_eval as u64),
            n_layers: Felt::from(p.steps.len() as u64),
            inner_layers: inner,
            fri_step_sizes: p.steps.iter().map(|s| Felt::from(*s as u64)).collect(),
            log_last_layer_degree_bound: Felt::from(p.log_last as u64),
        },
        proof_of_work: swiftness_pow::config::Config { n_bits: pow_bits },
        log_trace_domain_size: Felt::from(t as u64),
        n_queries: Felt::from(n_queries),
        log_n_cosets: Felt::from(c as u64),
        n_verifier_friendly_commitment_layers: Felt::from(p.n_friendly),
    };
    let tw = |a: Vec<Felt>| table::types::Witness { vector: vector::types::Witness { authentications: a } };
    let proof = StarkProof {
        config,
        public_input,
        unsent_commitment: StarkUnsentCommitment {
            traces: trace::UnsentCommitment { original: orig_table.root(), interaction: inter_table.root() },
            composition: comp_table.root(),
            oods_values: oods,
            fri: swiftness_fri::types::UnsentCommitment {
                inner_layers: fri.tables.iter().map(|t| t.root()).collect(),
                last_layer_coefficients: fri.last_layer.clone(),
            },
            proof_of_work: swiftness_pow::pow::UnsentCommitment { nonce },
        },
        witness: StarkWitness {
            traces_decommitment: trace::Decommitment {
                original: table::types::Decommitment { values: orig_vals },
                interaction: table::types::Decommitment { values: inter_vals },
            },
            traces_witness: trace::Witness { original: tw(orig_auth), interaction: tw(inter_auth) },
            composition_decommitment: table::types::Decommitment { values: comp_vals },
            composition_witness: tw(comp_auth),
            fri_witness: swiftness_fri::types::Witness {
                layers: fri_layers
                    .into_iter()
                    .map(|(leaves, auth)| swiftness_fri::types::LayerWitness { leaves, table_witness: tw(auth) })
                    .collect(),
            },
        },
    };
    let mut proof = proof;
    if !config_overrides.is_empty() {
        let mut img = serde_json::to_value(&proof).map_err(|e| e.to_string())?;
        for (path, val) in config_overrides {
            image::apply(&mut img, &image::Fault::Set { path, value: image::felt_hex(&val) })?;
        }
        proof = serde_json::from_value(img).map_err(|e| e.to_string())?;
    }

    let truth = Truth {
        air_holds_at_z: air_holds_at_z && !opens_lie,
        columns_low_degree,
        params_sound,
        security_met,
        statement_unchanged,
        pow_valid,
        undetectable_by_queries,
    };
    Ok(Artifacts { proof, truth, params: p.clone(), security, queries, raw_queries, transcript_log: tlog })
}

/// The configuration an honest ToyLayout prover declares for `p`.
pub fn config_for(p: &ToyParams, n_queries: u64, pow_bits: u8) -> StarkConfig {
    let log_eval = p.log_trace + p.log_blowup;
    let vcfg = |h: u64| vector::config::Config { height: Felt::from(h), n_verifier_friendly_commitment_layers: Felt::from(p.n_friendly) };
    let tcfg = |cols: u64, h: u64| table::config::Config { n_columns: Felt::from(cols), vector: vcfg(h) };
    let mut inner = Vec::new();
    let mut h = log_eval;
    for s in &p.steps[1..] {
        h -= s;
        inner.push(tcfg(1u64 << s, h as u64));
    }
    StarkConfig {
        traces: trace::config::Config { original: tcfg(2, log_eval as u64), interaction: tcfg(1, log_eval as u64) },
        composition: tcfg(2, log_eval as u64),
        fri: swiftness_fri::config::Config {
            log_input_size: Felt::from(log_eval as u64),
            n_layers: Felt::from(p.steps.len() as u64),
            inner_layers: inner,
            fri_step_sizes: p.steps.iter().map(|s| Felt::from(*s as u64)).collect(),
            log_last_layer_degree_bound: Felt::from(p.log_last as u64),
        },
        proof_of_work: swiftness_pow::config::Config { n_bits: pow_bits },
        log_trace_domain_size: Felt::from(p.log_trace as u64),
        n_queries: Felt::from(n_queries),
        log_n_cosets: Felt::from(p.log_blowup as u64),
        n_verifier_friendly_commitment_layers: Felt::from(p.n_friendly),
    }
}

pub fn honest_base(params: &ToyParams) -> Result<Base, String> {
    let art = prove(params, &Cheat::None)?;
    let image = serde_json::to_value(&art.proof).map_err(|e| e.to_string())?;
    Ok(Base {
        name: format!("toy:{}", params.shape_class()),
        layout: "toy".into(),
        image,
        security: art.security,
        spec: json!({"kind": "toy", "params": params, "cheat": Cheat::None}),
    })
}

pub fn base_from_spec(spec: &serde_json::Value) -> Result<Base, String> {
    let params: ToyParams = serde_json::from_value(spec["params"].clone()).map_err(|e| e.to_string())?;
    let cheat: Cheat = serde_json::from_value(spec["cheat"].clone()).unwrap_or(Cheat::None);
    let art = prove(&params, &cheat)?;
    let image = serde_json::to_value(&art.proof).map_err(|e| e.to_string())?;
    Ok(Base { name: format!("toy:{}", params.shape_class()), layout: "toy".into(), image, security: art.security, spec: spec.clone() })
}
