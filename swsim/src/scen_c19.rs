//! C19: the one real I/O surface. A Stone proof file on disk is the stored message; faults are
//! what storage and editing do to it (torn write, bit flips, line loss/duplication/reordering,
//! out-of-range numbers, unknown names, bad hex). V = real `swiftness_proof_parser::parse` +
//! `TransformTo`; oracle = the independent loader reading what the (faulted) file says.
use crate::common::{replay_envelope, Ctx};
use crate::monitor::{self, Outcome};
use crate::rng::Rng;
use crate::stone_loader::{self, Mode};
use serde_json::{json, Value};
use swiftness::TransformTo;
use swiftness_stark::types::StarkProof;

/// What the repository's parser + CLI conversion make of `text`.
fn sut(text: &str) -> (Outcome, Option<Value>) {
    let t = text.to_string();
    let mut image = None;
    let r = monitor::guarded(u64::MAX, || -> Result<String, String> {
        let parsed = swiftness_proof_parser::parse(t.clone()).map_err(|e| format!("ParseError({})", first_words(&e.to_string())))?;
        let proof: StarkProof = parsed.transform_to();
        Ok(serde_json::to_string(&proof).map_err(|e| e.to_string())?)
    });
    if let Outcome::Accept(_) = &r.outcome {
        // re-run outside the guard to obtain the typed value (parse is deterministic; checked below)
        if let Ok(parsed) = swiftness_proof_parser::parse(text.to_string()) {
            let proof: StarkProof = parsed.transform_to();
            image = serde_json::to_value(&proof).ok();
        }
    }
    let outcome = match r.outcome {
        Outcome::Accept(_) => Outcome::Accept("proof".into()),
        o => o,
    };
    (outcome, image)
}

fn first_words(s: &str) -> String {
    s.split_whitespace().take(4).collect::<Vec<_>>().join("_")
}

#[derive(Debug)]
enum Says {
    Proof(Value),
    Malformed(String),
    NotStated(String),
}

/// What the independent loader reads from the faulted file (text mode: what the file says).
fn oracle(text: &str) -> Says {
    let doc: Value = match serde_json::from_str(text) {
        Ok(d) => d,
        Err(e) => return Says::Malformed(format!("not JSON: {e}")),
    };
    match stone_loader::load_value_mode(&doc, "faulted", Mode::Text) {
        Ok(l) => Says::Proof(l.proof),
        Err(e) if e.starts_with("ambiguous") || e.starts_with("inconsistent") || e.contains("continuous pages") => Says::NotStated(e),
        Err(e) => Says::Malformed(e),
    }
}

fn first_difference(a: &Value, b: &Value) -> Option<String> {
    let la = crate::image::leaves(a);
    let lb = crate::image::leaves(b);
    for (x, y) in la.iter().zip(lb.iter()) {
        if x.path != y.path {
            return Some(format!("structure differs at {} vs {}", crate::image::path_str(&x.path), crate::image::path_str(&y.path)));
        }
        let (vx, vy) = (crate::image::get(a, &x.path).unwrap(), crate::image::get(b, &y.path).unwrap());
        let same = match (crate::image::felt_of(vx), crate::image::felt_of(vy)) {
            (Some(p), Some(q)) => p == q,
            _ => vx == vy,
        };
        if !same {
            return Some(format!("{}: converted {} but the file says {}", crate::image::path_str(&x.path), vx, vy));
        }
    }
    if la.len() != lb.len() {
        return Some(format!("converted proof has {} scalar positions, the file describes {}", la.len(), lb.len()));
    }
    None
}

fn class_of_path(d: &str) -> String {
    let p = d.split(':').next().unwrap_or("");
    let mut out = String::new();
    let mut in_idx = false;
    for ch in p.chars() {
        match ch {
            '[' => {
                in_idx = true;
                out.push_str("[]");
            }
            ']' => in_idx = false,
            _ if in_idx => {}
            c => out.push(c),
        }
    }
    out
}

/// Does some trace table of the file have a `Data` authentication line after a `Hash` line?
/// (the parser collects all Data lines of a table before its Hash lines)
fn data_after_hash(text: &str) -> bool {
    let Ok(doc) = serde_json::from_str::<Value>(text) else { return false };
    let Some(a) = doc["annotations"].as_array() else { return false };
    for t in 0..3 {
        let key = format!("/Virtual Oracle/Trace {t}: ");
        let mut seen_hash = false;
        for l in a.iter().filter_map(|l| l.as_str()).filter(|l| l.starts_with("P->V[") && l.contains(&key)) {
            if l.contains(": Hash(") {
                seen_hash = true;
            } else if l.contains(": Data(") && seen_hash {
                return true;
            }
        }
    }
    false
}

struct FileFault {
    kind: String,
    text: String,
    /// how to rebuild for a replay: list of JSON-pointer edits or a byte-level operation
    spec: Value,
}

fn ann_mut(doc: &mut Value) -> &mut Vec<Value> {
    doc["annotations"].as_array_mut().expect("annotations")
}

fn structured_faults(doc: &Value, rng: &mut Rng, thorough: bool) -> Vec<FileFault> {
    let mut out = Vec::new();
    let mut push = |kind: &str, d: Value, spec: Value| out.push(FileFault { kind: kind.to_string(), text: serde_json::to_string(&d).unwrap(), spec });
    let n_ann = doc["annotations"].as_array().map(|a| a.len()).unwrap_or(0);
    let pv_lines: Vec<usize> = (0..n_ann).filter(|i| doc["annotations"][*i].as_str().map(|s| s.starts_with("P->V[")).unwrap_or(false)).collect();
    let reps = if thorough { 40 } else { 8 };
    for _ in 0..reps {
        let i = *rng.pick(&pv_lines);
        // delete / duplicate / swap annotation lines
        let mut d = doc.clone();
        ann_mut(&mut d).remove(i);
        push("line-delete", d, json!({"op": "line-delete", "i": i}));
        let mut d = doc.clone();
        let l = d["annotations"][i].clone();
        ann_mut(&mut d).insert(i, l);
        push("line-duplicate", d, json!({"op": "line-duplicate", "i": i}));
        let j = *rng.pick(&pv_lines);
        if i != j {
            let mut d = doc.clone();
            ann_mut(&mut d).swap(i, j);
            push("line-swap", d, json!({"op": "line-swap", "i": i, "j": j}));
        }
        if i + 1 < n_ann && pv_lines.contains(&(i + 1)) {
            let mut d = doc.clone();
            ann_mut(&mut d).swap(i, i + 1);
            push("line-swap-adjacent", d, json!({"op": "line-swap", "i": i, "j": i + 1}));
        }
        // value change in the text of a line (last hex digit)
        let line = doc["annotations"][i].as_str().unwrap().to_string();
        if let Some(pos) = line.rfind(')') {
            if pos >= 1 {
                let (a, b) = line.split_at(pos - 1);
                let ch = b.chars().next().unwrap();
                if ch.is_ascii_hexdigit() {
                    let new = if ch == '0' { '1' } else { '0' };
                    let mut d = doc.clone();
                    d["annotations"][i] = json!(format!("{a}{new}{}", &b[1..]));
                    push("value-change", d, json!({"op": "line-set", "i": i, "text": format!("{a}{new}{}", &b[1..])}));
                    // hex -> non-hex
                    let mut d = doc.clone();
                    d["annotations"][i] = json!(format!("{a}g{}", &b[1..]));
                    push("bad-hex", d, json!({"op": "line-set", "i": i, "text": format!("{a}g{}", &b[1..])}));
                }
            }
        }
    }
    // per topic: the rare message kinds (commitments, FRI layer commitments, interaction
    // elements...) are a handful of lines among thousands of decommitment lines; a uniformly drawn
    // line almost never is one of them. For every topic with at most 16 lines: exchange its first
    // two lines, repeat its last line, drop one, and add a further line whose label continues the
    // numbering (a surplus message).
    {
        let mut topics: std::collections::BTreeMap<String, Vec<usize>> = Default::default();
        for &i in &pv_lines {
            let l = doc["annotations"][i].as_str().unwrap_or("");
            let body = l.split_once("]: ").map(|x| x.1).unwrap_or(l);
            let head = body.rsplit_once('(').map(|x| x.0).unwrap_or(body);
            let class: String = head.chars().map(|c| if c.is_ascii_digit() { '#' } else { c }).collect();
            topics.entry(class).or_default().push(i);
        }
        for (_, lines) in topics.iter().filter(|(_, v)| v.len() <= 16) {
            let last = *lines.last().unwrap();
            if lines.len() >= 2 {
                let mut d = doc.clone();
                ann_mut(&mut d).swap(lines[0], lines[1]);
                push("topic-swap", d, json!({"op": "line-swap", "i": lines[0], "j": lines[1]}));
            }
            let l = doc["annotations"][last].clone();
            let mut d = doc.clone();
            ann_mut(&mut d).insert(last + 1, l.clone());
            push("topic-duplicate", d, json!({"op": "line-insert", "i": last + 1, "text": l}));
            let k = lines[rng.usize_below(lines.len())];
            let mut d = doc.clone();
            ann_mut(&mut d).remove(k);
            push("topic-delete", d, json!({"op": "line-delete", "i": k}));
            // a surplus line labelled with the next number (last number of the topic text + 1)
            let text = l.as_str().unwrap_or("").to_string();
            if let (Some((pre, payload)), true) = (text.rsplit_once('('), lines.len() >= 2) {
                let digits_end = pre.rfind(|c: char| c.is_ascii_digit());
                if let Some(e) = digits_end {
                    let b = pre[..=e].rfind(|c: char| !c.is_ascii_digit()).map(|x| x + 1).unwrap_or(0);
                    let after_bracket = pre.find("]: ").map(|x| x + 3).unwrap_or(0);
                    if b >= after_bracket {
                        if let Ok(n) = pre[b..=e].parse::<u64>() {
                            let nl = format!("{}{}{}({}", &pre[..b], n + 1, &pre[e + 1..], payload);
                            let mut d = doc.clone();
                            ann_mut(&mut d).insert(last + 1, json!(nl.clone()));
                            push("topic-surplus-next-label", d, json!({"op": "line-insert", "i": last + 1, "text": nl}));
                        }
                    }
                }
            }
        }
    }
    // bad hex inside the two vector messages (OODS values, last layer)
    for (k, topic) in [("bad-hex-in-vector", "OODS values: : Field Elements("), ("bad-hex-in-vector", "Last Layer: Coefficients: Field Elements(")] {
        if let Some(i) = (0..n_ann).find(|i| doc["annotations"][*i].as_str().map(|s| s.contains(topic)).unwrap_or(false)) {
            let line = doc["annotations"][i].as_str().unwrap().to_string();
            let commas: Vec<usize> = line.match_indices(", 0x").map(|(p, _)| p).collect();
            if !commas.is_empty() {
                let p = commas[rng.usize_below(commas.len())] + 4;
                let mut nl = line.clone();
                nl.replace_range(p..p + 1, "x");
                let mut d = doc.clone();
                d["annotations"][i] = json!(nl.clone());
                push(k, d, json!({"op": "line-set", "i": i, "text": nl}));
                // an emptied element
                let mut nl2 = line.clone();
                let end = nl2[p..].find([',', ')']).map(|e| p + e).unwrap_or(nl2.len());
                nl2.replace_range(p - 2..end, "");
                let mut d = doc.clone();
                d["annotations"][i] = json!(nl2.clone());
                push("empty-element-in-vector", d, json!({"op": "line-set", "i": i, "text": nl2}));
            }
        }
    }
    // the nonce line
    if let Some(i) = (0..n_ann).find(|i| doc["annotations"][*i].as_str().map(|s| s.contains("Proof of Work: POW: Data(")).unwrap_or(false)) {
        let line = doc["annotations"][i].as_str().unwrap().to_string();
        let head = &line[..line.find("Data(").unwrap() + 5];
        for (k, v) in [("nonce=0", "0x0"), ("nonce=2^64", "0x10000000000000000"), ("nonce=2^64+small", "0x1000000000000002a"), ("nonce=2^64-1", "0xffffffffffffffff"), ("nonce=2^200", "0x100000000000000000000000000000000000000000000000000")] {
            let mut d = doc.clone();
            d["annotations"][i] = json!(format!("{head}{v})"));
            push(k, d, json!({"op": "line-set", "i": i, "text": format!("{head}{v})")}));
        }
    }
    // proof parameters and public input numbers
    let sets: Vec<(&str, &str, Vec<Value>)> = vec![
        ("pow-bits", "/proof_parameters/stark/fri/proof_of_work_bits", vec![json!(0), json!(255), json!(256), json!(300), json!(286), json!(4294967295u64), json!(4294967296u64), json!(-1)]),
        ("n-queries", "/proof_parameters/stark/fri/n_queries", vec![json!(0), json!(4294967295u64), json!(4294967296u64)]),
        ("last-layer-bound", "/proof_parameters/stark/fri/last_layer_degree_bound", vec![json!(0), json!(1), json!(3), json!(96), json!(4294967295u64)]),
        ("log-n-cosets", "/proof_parameters/stark/log_n_cosets", vec![json!(0), json!(31), json!(4294967295u64)]),
        ("n-friendly", "/proof_parameters/n_verifier_friendly_commitment_layers", vec![json!(0), json!(4294967295u64), json!(4294967296u64)]),
        ("n-steps", "/public_input/n_steps", vec![json!(0), json!(1), json!(3), json!(6000), json!(268435456u64), json!(2147483648u64), json!(4294967295u64)]),
        ("rc", "/public_input/rc_max", vec![json!(0), json!(65536), json!(4294967295u64), json!(4294967296u64)]),
        ("fri-steps", "/proof_parameters/stark/fri/fri_step_list", vec![json!([]), json!([0]), json!([0, 40]), json!([0, 4, 4, 4, 4, 4, 4, 4]), json!([5]), json!([0, 32])]),
        ("layout-name", "/public_input/layout", vec![json!("plain"), json!("unknown_layout"), json!("")]),
    ];
    for (kind, ptr, vals) in sets {
        for v in vals {
            let mut d = doc.clone();
            if let Some(slot) = d.pointer_mut(ptr) {
                *slot = v.clone();
                push(&format!("param:{kind}"), d, json!({"op": "set", "ptr": ptr, "value": v}));
            }
        }
    }
    // a first FRI step other than 0, declared consistently (the last-layer bound shrinks by the
    // same factor): every layer height depends on it
    if let (Some(steps), Some(bound)) = (doc.pointer("/proof_parameters/stark/fri/fri_step_list").and_then(|v| v.as_array()).cloned(), doc.pointer("/proof_parameters/stark/fri/last_layer_degree_bound").and_then(|v| v.as_u64())) {
        for k in [1u64, 2, 4] {
            if !steps.is_empty() && bound % (1 << k) == 0 && bound >> k >= 1 {
                let mut ns = steps.clone();
                ns[0] = json!(k);
                let mut d = doc.clone();
                *d.pointer_mut("/proof_parameters/stark/fri/fri_step_list").unwrap() = json!(ns);
                *d.pointer_mut("/proof_parameters/stark/fri/last_layer_degree_bound").unwrap() = json!(bound >> k);
                push("param:fri-first-step", d, json!({"op": "set-many", "sets": [{"ptr": "/proof_parameters/stark/fri/fri_step_list", "value": ns}, {"ptr": "/proof_parameters/stark/fri/last_layer_degree_bound", "value": bound >> k}]}));
            }
        }
    }
    // every memory segment given its own addresses (in the shipped files unused builtins share one
    // empty segment, which hides any mix-up of their positions)
    if let Some(Value::Object(m)) = doc.pointer("/public_input/memory_segments") {
        let mut sets = Vec::new();
        let mut d = doc.clone();
        for (i, name) in m.keys().enumerate() {
            if ["program", "execution", "output"].contains(&name.as_str()) {
                continue;
            }
            let b = 100_000 + 1000 * i as u64;
            let v = json!({"begin_addr": b, "stop_ptr": b + 7 * (i as u64 + 1)});
            *d.pointer_mut(&format!("/public_input/memory_segments/{name}")).unwrap() = v.clone();
            sets.push(json!({"ptr": format!("/public_input/memory_segments/{name}"), "value": v}));
        }
        push("segments-all-distinct", d, json!({"op": "set-many", "sets": sets}));
    }
    // missing keys
    for ptr in ["/proof_parameters/stark/fri/n_queries", "/proof_parameters/stark/log_n_cosets", "/public_input/memory_segments", "/public_input/rc_min", "/annotations", "/public_input/public_memory", "/proof_parameters/n_verifier_friendly_commitment_layers"] {
        let mut d = doc.clone();
        let (parent, key) = ptr.rsplit_once('/').unwrap();
        if let Some(Value::Object(m)) = d.pointer_mut(parent) {
            m.remove(key);
            push("missing-key", d, json!({"op": "remove", "ptr": ptr}));
        }
    }
    // segments: unknown name, removal, address overflow
    {
        let mut d = doc.clone();
        if let Some(Value::Object(m)) = d.pointer_mut("/public_input/memory_segments") {
            let first = m.keys().next().cloned().unwrap();
            let v = m.remove(&first).unwrap();
            m.insert("mystery_builtin".into(), v);
            push("segment-unknown-name", d, json!({"op": "rename-segment", "from": first, "to": "mystery_builtin"}));
        }
        let mut d = doc.clone();
        if let Some(Value::Object(m)) = d.pointer_mut("/public_input/memory_segments") {
            let k = m.keys().nth(rng.usize_below(m.len())).cloned().unwrap();
            m.remove(&k);
            push("segment-removed", d, json!({"op": "remove", "ptr": format!("/public_input/memory_segments/{k}")}));
        }
        let mut d = doc.clone();
        if let Some(slot) = d.pointer_mut("/public_input/memory_segments/output/stop_ptr") {
            *slot = json!(4294967296u64);
            push("segment-overflow", d, json!({"op": "set", "ptr": "/public_input/memory_segments/output/stop_ptr", "value": 4294967296u64}));
        }
    }
    // public memory entries: value bad hex, reorder, removal, non-zero page, address change
    let n_mem = doc["public_input"]["public_memory"].as_array().map(|a| a.len()).unwrap_or(0);
    if n_mem >= 2 {
        let i = rng.usize_below(n_mem);
        let edits: Vec<(&str, Box<dyn Fn(&mut Value)>)> = vec![
            ("memory-bad-hex", Box::new(move |d: &mut Value| d["public_input"]["public_memory"][i]["value"] = json!("0xzz")) as Box<dyn Fn(&mut Value)>),
            ("memory-value-no-prefix", Box::new(move |d: &mut Value| d["public_input"]["public_memory"][i]["value"] = json!("12"))),
            ("memory-value-change", Box::new(move |d: &mut Value| d["public_input"]["public_memory"][i]["value"] = json!("0x123456"))),
            ("memory-address-change", Box::new(move |d: &mut Value| d["public_input"]["public_memory"][i]["address"] = json!(77777))),
            ("memory-page-1", Box::new(move |d: &mut Value| d["public_input"]["public_memory"][i]["page"] = json!(1))),
            ("memory-removed", Box::new(move |d: &mut Value| { d["public_input"]["public_memory"].as_array_mut().unwrap().remove(i); })),
            ("memory-transposed", Box::new(move |d: &mut Value| { let a = d["public_input"]["public_memory"].as_array_mut().unwrap(); let j = (i + 1) % a.len(); a.swap(i, j); })),
            ("memory-first-removed", Box::new(move |d: &mut Value| { d["public_input"]["public_memory"].as_array_mut().unwrap().remove(0); })),
            ("memory-empty", Box::new(move |d: &mut Value| { d["public_input"]["public_memory"] = json!([]); })),
        ];
        for (kind, f) in edits {
            let mut d = doc.clone();
            f(&mut d);
            let spec = json!({"op": "whole-public-input", "public_input": d["public_input"]});
            push(kind, d, spec);
        }
    }
    // dynamic parameters: value change, removal, reorder of keys is a no-op in JSON objects
    if let Some(Value::Object(m)) = doc.pointer("/public_input/dynamic_params") {
        let keys: Vec<String> = m.keys().cloned().collect();
        for _ in 0..6 {
            let k = rng.pick(&keys).clone();
            let mut d = doc.clone();
            let cur = d["public_input"]["dynamic_params"][&k].as_u64().unwrap_or(0);
            d["public_input"]["dynamic_params"][&k] = json!(cur + 1 + rng.below(50));
            let spec = json!({"op": "set", "ptr": format!("/public_input/dynamic_params/{k}"), "value": d["public_input"]["dynamic_params"][&k]});
            push("dynamic-param-change", d, spec);
        }
        let k = rng.pick(&keys).clone();
        let mut d = doc.clone();
        d["public_input"]["dynamic_params"].as_object_mut().unwrap().remove(&k);
        push("dynamic-param-removed", d, json!({"op": "remove", "ptr": format!("/public_input/dynamic_params/{k}")}));
    }
    // more than ten FRI layers: the file consistently describes 12 layers (extra commitment and
    // decommitment lines for layers 4.. with distinct values)
    if let Some(d) = twelve_layers(doc) {
        push("twelve-fri-layers", d, json!({"op": "twelve-fri-layers"}));
    }
    out
}

/// A file that consistently describes 12 FRI layers: fri_step_list extended with steps of 1 and
/// commitment / decommitment lines added for the new layers (deterministic, no PRNG).
fn twelve_layers(doc: &Value) -> Option<Value> {
    let mut d = doc.clone();
    let steps = d["proof_parameters"]["stark"]["fri"]["fri_step_list"].as_array().cloned().unwrap_or_default();
    let have = steps.len();
    if !(2..12).contains(&have) {
        return None;
    }
    let mut new_steps = steps.clone();
    while new_steps.len() < 12 {
        new_steps.push(json!(1));
    }
    d["proof_parameters"]["stark"]["fri"]["fri_step_list"] = Value::Array(new_steps);
    let a = ann_mut(&mut d);
    let mut at = (0..a.len()).rev().find(|i| a[*i].as_str().map(|s| s.contains("/STARK/FRI/Commitment/Layer ") && s.contains("Commitment: Hash(")).unwrap_or(false))?;
    for layer in have..12 {
        at += 1;
        a.insert(at, json!(format!("P->V[0:32]: /cpu air/STARK/FRI/Commitment/Layer {layer}: Commitment: Hash(0x{:x})", 0xabc000 + layer)));
    }
    let mut at = (0..a.len()).find(|i| a[*i].as_str().map(|s| s.starts_with("Proof Statistics")).unwrap_or(false)).unwrap_or(a.len());
    for layer in have..12 {
        for r in 0..3 {
            a.insert(at, json!(format!("P->V[0:32]: /cpu air/STARK/FRI/Decommitment/Layer {layer}: Row {r}, Column 1: Field Element(0x{:x})", 0x5000 + 16 * layer + r)));
            at += 1;
        }
        for r in 0..2 {
            a.insert(at, json!(format!("P->V[0:32]: /cpu air/STARK/FRI/Decommitment/Layer {layer}: For node {}: Hash(0x{:x})", 100 + r, 0x7000 + 16 * layer + r)));
            at += 1;
        }
    }
    Some(d)
}

fn byte_faults(text: &str, rng: &mut Rng, thorough: bool) -> Vec<FileFault> {
    let mut out = Vec::new();
    let n = text.len();
    let hex_start = text.find("\"proof_hex\"").unwrap_or(n);
    let hex_end = text[hex_start..].find("\",").map(|e| hex_start + e).unwrap_or(n);
    let reps = if thorough { 60 } else { 12 };
    for _ in 0..reps {
        // torn write: truncate at an arbitrary byte
        let cut = rng.usize_below(n);
        if text.is_char_boundary(cut) {
            out.push(FileFault { kind: "truncate".into(), text: text[..cut].to_string(), spec: json!({"op": "truncate", "at": cut}) });
        }
        // bit flip outside proof_hex (inside it the file would contradict its own annotations)
        let mut pos = rng.usize_below(n);
        if pos >= hex_start && pos < hex_end {
            pos = (pos + (hex_end - hex_start)) % n;
        }
        let mut b = text.as_bytes().to_vec();
        let bit = rng.below(7);
        b[pos] ^= 1 << bit;
        if let Ok(s) = String::from_utf8(b) {
            out.push(FileFault { kind: "bitflip".into(), text: s, spec: json!({"op": "bitflip", "pos": pos, "bit": bit}) });
        }
        // byte deletion / insertion
        let pos = rng.usize_below(n);
        if text.is_char_boundary(pos) && text.is_char_boundary(pos + 1) && !(pos >= hex_start && pos < hex_end) {
            let mut s = text.to_string();
            s.remove(pos);
            out.push(FileFault { kind: "byte-delete".into(), text: s, spec: json!({"op": "byte-delete", "pos": pos}) });
            let mut s = text.to_string();
            let ch = *rng.pick(&['0', 'f', ',', '"', ' ', '}']);
            s.insert(pos, ch);
            out.push(FileFault { kind: "byte-insert".into(), text: s, spec: json!({"op": "byte-insert", "pos": pos, "ch": ch.to_string()}) });
        }
    }
    out.push(FileFault { kind: "trailing-garbage".into(), text: format!("{text}\n{{\"x\":1}}"), spec: json!({"op": "append", "text": "\n{\"x\":1}"}) });
    out.push(FileFault { kind: "empty-file".into(), text: String::new(), spec: json!({"op": "truncate", "at": 0}) });
    out
}

/// Evaluates one (possibly faulted) file; returns Some((class, detail)) on a violation.
fn judge(text: &str) -> (Outcome, Option<(String, String)>) {
    let (o, img) = sut(text);
    if let Outcome::Panic { loc, msg } = &o {
        return (o.clone(), Some((format!("C19|panic|{}", monitor::short_loc(loc)), format!("parser/conversion panicked: {}", msg.lines().next().unwrap_or("")))));
    }
    let says = oracle(text);
    let v = match (&says, &o, &img) {
        (Says::Malformed(why), Outcome::Accept(_), _) => {
            let reason = if why.contains("unknown prover message topic") || why.contains("unknown shape") || why.contains("unparsable prover message line") || why.contains("bad decommitment layer") || why.contains("bad trace number") || why.contains("bad layer number") || why.contains("bad row") || why.contains("bad node") || why.contains("bad element") {
                "unclassifiable-line-ignored"
            } else if why.contains("value exceeds") {
                "value-exceeds-field"
            } else if why.contains("unparsable value") || why.contains("without 0x") || why.contains("bad hex") {
                "unparsable-value"
            } else if why.contains("nonce") {
                "nonce-range"
            } else if why.contains("proof_of_work_bits") {
                "pow-bits-range"
            } else if why.contains("dynamic_params") {
                "dynamic-params-by-position"
            } else if why.contains("not JSON") {
                "not-json"
            } else {
                "other"
            };
            Some((format!("C19|malformed-accepted|{reason}"), format!("file is malformed ({why}) but parsing succeeded")))
        }
        (Says::Proof(want), Outcome::Accept(_), Some(got)) => first_difference(got, want).map(|d| {
            let kind = if d.contains("authentications") && data_after_hash(text) { "data-line-after-hash-line" } else { "value" };
            (format!("C19|differs|{kind}|{}", class_of_path(&d)), d)
        }),
        (Says::Proof(_), Outcome::Accept(_), None) => Some(("C19|nondeterministic".to_string(), "second parse of the same text failed".to_string())),
        _ => None,
    };
    (o, v)
}

pub fn c19(ctx: &mut Ctx) {
    let scenario = "c19.file";
    let paths = stone_loader::shipped_proof_paths();
    let mut unit = 0u64;
    for (bi, path) in paths.iter().enumerate() {
        let text = match std::fs::read_to_string(path) {
            Ok(t) => t,
            Err(e) => ctx.harness_error(&format!("{path}: {e}")),
        };
        let short = path.trim_start_matches("/repo/examples/proofs/").to_string();
        let doc: Value = serde_json::from_str(&text).unwrap();
        let mk = |ctx: &Ctx, spec: &Value, o: &Outcome, faulted: Option<&str>| {
            let mut body = json!({"call": "file", "file": path, "fault": spec, "expected_outcome": o.describe()});
            // small faulted files are stored inline so the replay needs no reconstruction
            if let Some(t) = faulted {
                body["faulted_sha256"] = json!(crate::proofrun::sha256_hex(t.as_bytes()));
            }
            replay_envelope("C19", scenario, &ctx.variant, body)
        };
        // ---- zero-fault: parser+conversion == what the file says == the recorded stream -------
        if ctx.mine(unit) {
            ctx.begin_run(scenario, unit);
            let (o, v) = judge(&text);
            ctx.stats.evaluations += 1;
            ctx.stats.messages_delivered += doc["annotations"].as_array().map(|a| a.len()).unwrap_or(0) as u64;
            ctx.stats.state(format!("{}|none|{}", short.split('/').next().unwrap(), o.class()));
            if !o.is_accept() {
                ctx.violation(&format!("C19|shipped-file-rejected|{}", o.class()), &format!("{short}: {}", o.describe()), mk(ctx, &json!({"op": "none"}), &o, None));
            } else if let Some((class, detail)) = v {
                ctx.violation(&class, &format!("{short} (unmodified): {detail}"), mk(ctx, &json!({"op": "none"}), &o, None));
            }
            // text mode and hex mode of the independent loader agree on the shipped file
            let hex = stone_loader::load_value_mode(&doc, path, Mode::Hex);
            let txt = stone_loader::load_value_mode(&doc, path, Mode::Text);
            match (hex, txt) {
                (Ok(h), Ok(t)) if first_difference(&h.proof, &t.proof).is_none() => ctx.stats.probe("annotation-text-equals-recorded-stream"),
                (h, t) => ctx.harness_error(&format!("{short}: loader modes disagree: {:?} / {:?}", h.err(), t.err())),
            }
            // fresh HashMap state: parse again, must be identical
            let (_, a) = sut(&text);
            let (_, b) = sut(&text);
            if a != b {
                ctx.violation("C19|nondeterministic", &format!("{short}: two parses of the same text differ"), mk(ctx, &json!({"op": "none"}), &o, None));
            }
        }
        unit += 1;
        // ---- faults -------------------------------------------------------------------------------
        let mut rng = Rng::derive(ctx.seed, scenario, bi as u64);
        let mut faults = structured_faults(&doc, &mut rng, !ctx.is_quick());
        faults.extend(byte_faults(&text, &mut rng, !ctx.is_quick()));
        for f in faults {
            let mine = ctx.mine(unit);
            unit += 1;
            if !mine {
                continue;
            }
            ctx.begin_run(scenario, unit);
            let (o, v) = judge(&f.text);
            ctx.stats.evaluations += 1;
            ctx.stats.fired(f.kind.split(':').next().unwrap());
            ctx.stats.state(format!("{}|{}|{}|{}", short.split('/').next().unwrap(), f.kind, o.class().split('(').next().unwrap(), v.as_ref().map(|x| x.0.split('|').nth(1).unwrap_or("")).unwrap_or("ok")));
            if ctx.stats.samples.len() < 5 {
                ctx.stats.sample(json!({"file": short, "fault": f.kind, "spec": f.spec, "outcome": o.class()}));
            }
            if let Some((class, detail)) = v {
                let class = format!("{class}|{}", f.kind);
                let mut rep = mk(ctx, &f.spec, &o, Some(&f.text));
                // store the faulted file next to the replay when it is not reconstructible from the spec
                rep["faulted_text_if_small"] = if f.text.len() < 4096 { json!(f.text) } else { Value::Null };
                ctx.violation(&class, &format!("{short} with {}: {detail}", f.kind), rep);
            }
        }
    }
}

/// Rebuilds the faulted text of a replay from its spec.
fn rebuild(rep: &Value) -> Result<String, String> {
    if let Some(t) = rep["faulted_text_if_small"].as_str() {
        return Ok(t.to_string());
    }
    let path = rep["file"].as_str().ok_or("file")?;
    let text = std::fs::read_to_string(path).map_err(|e| e.to_string())?;
    let spec = &rep["fault"];
    let mut doc: Value = serde_json::from_str(&text).map_err(|e| e.to_string())?;
    let out = match spec["op"].as_str() {
        Some("none") => return Ok(text),
        Some("truncate") => return Ok(text[..spec["at"].as_u64().ok_or("at")? as usize].to_string()),
        Some("append") => return Ok(format!("{text}{}", spec["text"].as_str().unwrap_or(""))),
        Some("byte-delete") => {
            let mut s = text.clone();
            s.remove(spec["pos"].as_u64().ok_or("pos")? as usize);
            return Ok(s);
        }
        Some("bitflip") => {
            let mut b = text.clone().into_bytes();
            b[spec["pos"].as_u64().ok_or("pos")? as usize] ^= 1 << spec["bit"].as_u64().ok_or("bit")?;
            return String::from_utf8(b).map_err(|e| e.to_string());
        }
        Some("byte-insert") => {
            let mut s = text.clone();
            s.insert(spec["pos"].as_u64().ok_or("pos")? as usize, spec["ch"].as_str().and_then(|c| c.chars().next()).ok_or("ch")?);
            return Ok(s);
        }
        Some("line-delete") => {
            ann_mut(&mut doc).remove(spec["i"].as_u64().ok_or("i")? as usize);
            doc
        }
        Some("line-duplicate") => {
            let i = spec["i"].as_u64().ok_or("i")? as usize;
            let l = doc["annotations"][i].clone();
            ann_mut(&mut doc).insert(i, l);
            doc
        }
        Some("line-insert") => {
            let i = spec["i"].as_u64().ok_or("i")? as usize;
            let t = spec["text"].clone();
            ann_mut(&mut doc).insert(i, t);
            doc
        }
        Some("line-swap") => {
            ann_mut(&mut doc).swap(spec["i"].as_u64().ok_or("i")? as usize, spec["j"].as_u64().ok_or("j")? as usize);
            doc
        }
        Some("line-set") => {
            doc["annotations"][spec["i"].as_u64().ok_or("i")? as usize] = spec["text"].clone();
            doc
        }
        Some("set") => {
            *doc.pointer_mut(spec["ptr"].as_str().ok_or("ptr")?).ok_or("no such pointer")? = spec["value"].clone();
            doc
        }
        Some("set-many") => {
            for st in spec["sets"].as_array().ok_or("sets")? {
                *doc.pointer_mut(st["ptr"].as_str().ok_or("ptr")?).ok_or("no such pointer")? = st["value"].clone();
            }
            doc
        }
        Some("remove") => {
            let (parent, key) = spec["ptr"].as_str().ok_or("ptr")?.rsplit_once('/').ok_or("ptr")?;
            doc.pointer_mut(parent).and_then(|p| p.as_object_mut()).ok_or("parent")?.remove(key);
            doc
        }
        Some("rename-segment") => {
            let m = doc.pointer_mut("/public_input/memory_segments").and_then(|p| p.as_object_mut()).ok_or("segments")?;
            let v = m.remove(spec["from"].as_str().ok_or("from")?).ok_or("no such segment")?;
            m.insert(spec["to"].as_str().ok_or("to")?.to_string(), v);
            doc
        }
        Some("twelve-fri-layers") => twelve_layers(&doc).ok_or("file cannot be extended to 12 layers")?,
        Some("whole-public-input") => {
            doc["public_input"] = spec["public_input"].clone();
            doc
        }
        o => return Err(format!("fault {o:?} cannot be rebuilt from its spec (re-run the check with the same seed)")),
    };
    Ok(serde_json::to_string(&out).map_err(|e| e.to_string())?)
}

pub fn replay(rep: &Value) -> Result<(bool, String), String> {
    let text = rebuild(rep)?;
    if let Some(sha) = rep["faulted_sha256"].as_str() {
        if crate::proofrun::sha256_hex(text.as_bytes()) != sha {
            return Err("rebuilt faulted file differs from the one recorded in the replay".into());
        }
    }
    let (o, v) = judge(&text);
    Ok((v.is_some(), format!("{}{}", o.describe(), v.map(|x| format!(" [{}: {}]", x.0, x.1)).unwrap_or_default())))
}
