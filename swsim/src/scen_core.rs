//! Component-level scenarios (sub-protocol runs): C04 vector decommitment, C05 table
//! decommitment, C06/C07 FRI, C08 transcript histories, C09 proof of work.
//! P_hon is built from the reference models; V is the real public function; the channel applies
//! every single fault of the instance. A replay file holds the concrete (faulted) call.
use crate::common::{replay_envelope, Ctx};
use crate::models::{self, RefTable, RefTranscript, RefTree};
use crate::monitor::{self, Outcome};
use crate::rng::Rng;
use serde_json::{json, Value};
use starknet_crypto::Felt;
use swiftness_commitment::table;
use swiftness_commitment::vector;

#[path = "scen_core_fri.rs"]
mod fri_scen;
#[path = "scen_core_misc.rs"]
mod misc_scen;
pub use fri_scen::{c06, c06_big, c07, c07_big};
pub use misc_scen::{c08, c09, selftest_models};

pub fn hexf(f: &Felt) -> String {
    format!("{:#x}", f)
}

pub fn distinct_felts(rng: &mut Rng, n: usize) -> Vec<Felt> {
    // random 251-bit values: collisions have probability ~2^-230
    (0..n).map(|_| rng.felt()).collect()
}

/// Query-set shapes named by the properties.
pub fn draw_queries(rng: &mut Rng, height: u32, stats: &mut crate::common::Stats) -> Vec<u64> {
    let n = 1u64 << height;
    let shape = rng.below(8);
    let q = match shape {
        0 => {
            stats.probe("queries.single");
            vec![rng.below(n)]
        }
        1 => {
            stats.probe("queries.all");
            if n <= 64 { (0..n).collect() } else { rng.distinct_sorted(48, n) }
        }
        2 if n >= 2 => {
            stats.probe("queries.adjacent-siblings");
            let k = rng.below(n / 2) * 2;
            vec![k, k + 1]
        }
        3 if n >= 2 => {
            stats.probe("queries.both-edges");
            vec![0, n - 1]
        }
        4 if n >= 4 => {
            stats.probe("queries.one-subtree");
            // confined to one quarter of the tree
            let quarter = n / 4;
            let base = rng.below(4) * quarter;
            let k = rng.range(1, quarter.min(6)) as usize;
            rng.distinct_sorted(k, quarter).into_iter().map(|x| base + x).collect()
        }
        5 if n >= 4 => {
            stats.probe("queries.dense");
            let k = (n * 3 / 4).min(48) as usize;
            rng.distinct_sorted(k, n)
        }
        6 if n >= 2 => {
            stats.probe("queries.adjacent-non-siblings");
            if n >= 4 {
                let k = rng.below(n / 2 - 1) * 2 + 1;
                vec![k, k + 1]
            } else {
                vec![0, 1]
            }
        }
        _ => {
            stats.probe("queries.sparse");
            let k = rng.range(1, n.min(12)) as usize;
            rng.distinct_sorted(k, n)
        }
    };
    q
}

fn draw_friendly(rng: &mut Rng, height: u32, stats: &mut crate::common::Stats) -> u64 {
    let nf = match rng.below(4) {
        0 => 0,
        1 => 1000,
        _ => rng.range(0, height as u64 + 2),
    };
    if nf <= height as u64 + 1 {
        stats.probe(&format!("friendly-boundary.depth{}", if nf > 12 { 13 } else { nf }));
    }
    nf
}

// ------------------------------------------------------------------------------------------
// C04
// ------------------------------------------------------------------------------------------

#[derive(Clone)]
struct VecCall {
    height: u64,
    n_friendly: u64,
    root: Felt,
    queries: Vec<(Felt, Felt)>,
    auth: Vec<Felt>,
}

impl VecCall {
    fn to_json(&self) -> Value {
        json!({
            "height": self.height, "n_friendly": self.n_friendly, "root": hexf(&self.root),
            "queries": self.queries.iter().map(|(i, v)| json!([hexf(i), hexf(v)])).collect::<Vec<_>>(),
            "auth": self.auth.iter().map(hexf).collect::<Vec<_>>(),
        })
    }
    fn from_json(v: &Value) -> Result<Self, String> {
        let f = |x: &Value| Felt::from_hex(x.as_str().ok_or("not a string")?).map_err(|e| format!("{e:?}"));
        Ok(VecCall {
            height: v["height"].as_u64().ok_or("height")?,
            n_friendly: v["n_friendly"].as_u64().ok_or("n_friendly")?,
            root: f(&v["root"])?,
            queries: v["queries"].as_array().ok_or("queries")?.iter().map(|q| Ok((f(&q[0])?, f(&q[1])?))).collect::<Result<_, String>>()?,
            auth: v["auth"].as_array().ok_or("auth")?.iter().map(f).collect::<Result<_, String>>()?,
        })
    }
    fn run(&self) -> Outcome {
        let commitment = vector::types::Commitment {
            config: vector::config::Config {
                height: Felt::from(self.height),
                n_verifier_friendly_commitment_layers: Felt::from(self.n_friendly),
            },
            commitment_hash: self.root,
        };
        let queries: Vec<vector::types::Query> =
            self.queries.iter().map(|(i, v)| vector::types::Query { index: *i, value: *v }).collect();
        let witness = vector::types::Witness { authentications: self.auth.clone() };
        monitor::guarded(1_000_000, || vector::decommit::vector_commitment_decommit(commitment, &queries, witness)).outcome
    }
}

fn honest_vec_call(rng: &mut Rng, height: u32, n_friendly: u64, queries: &[u64]) -> VecCall {
    let leaves = distinct_felts(rng, 1usize << height);
    let tree = RefTree::build(leaves.clone(), n_friendly);
    let (auth, _) = tree.auth(queries);
    VecCall {
        height: height as u64,
        n_friendly,
        root: tree.root(),
        queries: queries.iter().map(|q| (Felt::from(*q), leaves[*q as usize])).collect(),
        auth,
    }
}

/// Honest call on a tall sparse tree (heights 20..=63): queried leaves and a few others are
/// distinct random values, the rest hold one default value.
fn tall_vec_call(rng: &mut Rng, height: u32, n_friendly: u64, queries: &[u64]) -> VecCall {
    let n = 1u64 << height;
    let mut set: Vec<(u64, Felt)> = queries.iter().map(|q| (*q, rng.felt())).collect();
    for _ in 0..rng.range(0, 4) {
        let i = rng.below(n);
        if !set.iter().any(|(q, _)| *q == i) {
            set.push((i, rng.felt()));
        }
    }
    let tree = models::SparseTree::build(height, n_friendly, rng.felt(), &set);
    VecCall {
        height: height as u64,
        n_friendly,
        root: tree.root(),
        queries: queries.iter().map(|q| (Felt::from(*q), set.iter().find(|(i, _)| i == q).unwrap().1)).collect(),
        auth: tree.auth(queries),
    }
}

fn draw_tall_queries(rng: &mut Rng, height: u32) -> Vec<u64> {
    let n = 1u64 << height;
    let mut v = Vec::new();
    for _ in 0..rng.range(1, 10) {
        let q = match rng.below(8) {
            0 => 0,
            1 => n - 1,
            2 => ((1u64 << 32) - 1) % n,
            3 => (1u64 << 32) % n,
            4 => ((1u64 << 32) + rng.below(64)) % n,
            5 => (n >> 1).wrapping_sub(rng.below(2)) % n,
            _ => rng.below(n),
        };
        v.push(q);
        if rng.chance(1, 3) {
            v.push(q ^ 1);
        }
    }
    v.sort();
    v.dedup();
    v
}

/// C04 on tall trees: completeness and single-fault binding with indices far above 2^32.
pub fn c04_tall(ctx: &mut Ctx) {
    let scenario = "core.c04.tall";
    for p in ["tall.query-at-or-above-2^32", "tall.height-above-40", "tall.query-zero", "tall.query-last"] {
        ctx.stats.declare_probe(p);
    }
    let n_inst: u64 = if ctx.is_quick() { 200 } else { 8_000 };
    for k in 0..n_inst {
        if !ctx.mine(k) {
            continue;
        }
        ctx.begin_run(scenario, k);
        let mut rng = Rng::derive(ctx.seed, scenario, k);
        let height = rng.range(20, 63) as u32;
        let n_friendly = match rng.below(4) {
            0 => 0,
            1 => 1000,
            _ => rng.range(0, height as u64 + 2),
        };
        let queries = draw_tall_queries(&mut rng, height);
        if queries.iter().any(|q| *q >= 1 << 32) {
            ctx.stats.probe("tall.query-at-or-above-2^32");
        }
        if height > 40 {
            ctx.stats.probe("tall.height-above-40");
        }
        if queries[0] == 0 {
            ctx.stats.probe("tall.query-zero");
        }
        if *queries.last().unwrap() == (1u64 << height) - 1 {
            ctx.stats.probe("tall.query-last");
        }
        let call = tall_vec_call(&mut rng, height, n_friendly, &queries);
        ctx.stats.messages_delivered += (call.queries.len() * 2 + call.auth.len() + 1) as u64;
        ctx.stats.evaluations += 1;
        let o = call.run();
        ctx.stats.state(format!("tall|h{}|q{}|none|{}", height / 8 * 8, queries.len().min(8), o.class()));
        if !o.is_accept() {
            let rep = replay_envelope("C04", "core.c04", &ctx.variant, json!({"call": "vector_decommit", "args": call.to_json(), "expect": "ok", "expected_outcome": o.describe(), "found_at": {"height": height, "n_friendly": n_friendly, "queries": queries}}));
            ctx.violation(&format!("C04|honest-rejected|{}", o.class()), &format!("honest decommitment rejected: height {height}, friendly {n_friendly}, queries {queries:?}: {}", o.describe()), rep);
            continue;
        }
        // a tall tree has hundreds of authentication nodes: a spread sample of the single faults
        let mut faults = vec_faults(&call, &mut rng);
        let cap = if ctx.is_quick() { 48 } else { 160 };
        if faults.len() > cap {
            let stride = faults.len() as f64 / cap as f64;
            let keep: std::collections::BTreeSet<usize> = (0..cap).map(|i| (i as f64 * stride) as usize).collect();
            let mut i = 0;
            faults.retain(|_| {
                i += 1;
                keep.contains(&(i - 1))
            });
        }
        for (name, faulted) in faults {
            let o = faulted.run();
            ctx.stats.evaluations += 1;
            let kind = fault_kind(&name);
            ctx.stats.fired(&kind);
            ctx.stats.state(format!("tall|h{}|{kind}|{}", height / 8 * 8, o.class()));
            if o.is_accept() {
                let rep = replay_envelope("C04", "core.c04", &ctx.variant, json!({"call": "vector_decommit", "args": faulted.to_json(), "expect": "not_ok", "fault": name, "expected_outcome": o.describe(), "found_at": {"height": height, "n_friendly": n_friendly, "queries": queries, "fault": name}}));
                ctx.violation(&format!("C04|fault-accepted|{kind}"), &format!("fault {name} accepted: height {height}, friendly {n_friendly}, queries {queries:?}"), rep);
            }
        }
    }
}

fn vec_faults(call: &VecCall, rng: &mut Rng) -> Vec<(String, VecCall)> {
    let mut out = Vec::new();
    let n = 1u64 << call.height;
    for i in 0..call.queries.len() {
        let mut c = call.clone();
        c.queries[i].1 += Felt::ONE;
        out.push((format!("value[{i}]+1"), c));
        let mut c = call.clone();
        c.queries[i].1 = rng.felt();
        out.push((format!("value[{i}]=random"), c));
        let idx: u64 = call.queries[i].0.to_biguint().try_into().unwrap();
        let present = |x: u64| call.queries.iter().any(|(q, _)| *q == Felt::from(x));
        for (name, cand) in [("index+1", idx.wrapping_add(1)), ("index-1", idx.wrapping_sub(1)), ("index=random", rng.below(n))] {
            if cand < n && cand != idx && !present(cand) {
                let mut c = call.clone();
                c.queries[i].0 = Felt::from(cand);
                out.push((format!("{name}[{i}]"), c));
            }
        }
        // out of range: same low bits, one extra high bit (and a far one)
        let mut c = call.clone();
        c.queries[i].0 = Felt::from(idx) + models::pow2(call.height);
        out.push((format!("index+2^h[{i}]"), c));
        let mut c = call.clone();
        c.queries[i].0 = Felt::from(idx) + models::pow2(call.height) * Felt::from(rng.range(2, 1 << 20));
        out.push((format!("index+k*2^h[{i}]"), c));
    }
    if call.queries.len() > 1 {
        // whole set shifted by 2^height
        let mut c = call.clone();
        for q in c.queries.iter_mut() {
            q.0 += models::pow2(call.height);
        }
        out.push(("all-indices+2^h".into(), c));
    }
    for i in 0..call.auth.len() {
        let mut c = call.clone();
        c.auth[i] += Felt::ONE;
        out.push((format!("auth[{i}]+1"), c));
        let mut c = call.clone();
        c.auth.remove(i);
        out.push((format!("auth[{i}] deleted"), c));
    }
    if call.auth.len() > 1 {
        let i = rng.usize_below(call.auth.len() - 1);
        if call.auth[i] != call.auth[i + 1] {
            let mut c = call.clone();
            c.auth.swap(i, i + 1);
            out.push((format!("auth[{i}]<->[{}]", i + 1), c));
        }
    }
    let mut c = call.clone();
    c.root += Felt::ONE;
    out.push(("root+1".into(), c));
    let mut c = call.clone();
    // root that agrees in the low 128 bits only
    c.root += models::pow2(200);
    out.push(("root+2^200".into(), c));
    out
}

/// Shape shrinking for C04: the smallest (height, query set) on which a fault of the same kind is
/// still accepted (or the honest decommitment still rejected). Returns the shrunk call and fault name.
fn shrink_vec(seed: u64, height: u32, n_friendly: u64, queries: &[u64], kind: Option<&str>) -> Option<(VecCall, String, u32, Vec<u64>)> {
    for h in 0..=height {
        let n = 1u64 << h;
        let mut shapes: Vec<Vec<u64>> = vec![vec![0], vec![n - 1]];
        if n >= 2 {
            shapes.push(vec![0, 1]);
            shapes.push(vec![0, n - 1]);
            shapes.push(vec![n / 2 - 1, n / 2]);
        }
        if n >= 4 {
            shapes.push(vec![1, 2]);
            shapes.push(vec![1, 2, n - 1]);
        }
        let own: Vec<u64> = queries.iter().cloned().filter(|q| *q < n).collect();
        if !own.is_empty() {
            shapes.push(own);
        }
        // friendly boundary relative to the (smaller) tree as well as the original one
        let nfs: Vec<u64> = if n_friendly > height as u64 + 1 { vec![n_friendly] } else { vec![n_friendly.min(h as u64 + 1), n_friendly] };
        for nf in nfs {
            for q in &shapes {
                let mut rng = Rng::new(seed ^ (h as u64) << 8 ^ q.len() as u64);
                let call = honest_vec_call(&mut rng, h, nf, q);
                match kind {
                    None => {
                        if !call.run().is_accept() {
                            return Some((call, "none".into(), h, q.clone()));
                        }
                    }
                    Some(k) => {
                        if !call.run().is_accept() {
                            continue;
                        }
                        for (name, f) in vec_faults(&call, &mut rng) {
                            if fault_kind(&name) == k && f.run().is_accept() {
                                return Some((f, name, h, q.clone()));
                            }
                        }
                    }
                }
            }
        }
    }
    None
}

fn fault_kind(name: &str) -> String {
    name.split('[').next().unwrap_or(name).to_string()
}

pub fn c04(ctx: &mut Ctx) {
    let scenario = "core.c04";
    for p in ["queries.single", "queries.all", "queries.adjacent-siblings", "queries.both-edges", "queries.one-subtree", "queries.dense", "queries.adjacent-non-siblings", "queries.sparse"] {
        ctx.stats.declare_probe(p);
    }
    for d in 0..=8 {
        ctx.stats.declare_probe(&format!("friendly-boundary.depth{d}"));
    }
    let n_inst: u64 = if ctx.is_quick() { 1500 } else { 40_000 };
    let max_h: u64 = if ctx.is_quick() { 10 } else { 14 };
    for k in 0..n_inst {
        if !ctx.mine(k) {
            continue;
        }
        ctx.begin_run(scenario, k);
        let mut rng = Rng::derive(ctx.seed, scenario, k);
        // bias to small heights (most structure, cheapest) with a tail of tall trees
        let height = if rng.chance(3, 4) { rng.range(0, 6) } else { rng.range(0, max_h) } as u32;
        let n_friendly = draw_friendly(&mut rng, height, &mut ctx.stats);
        let queries = draw_queries(&mut rng, height, &mut ctx.stats);
        let call = honest_vec_call(&mut rng, height, n_friendly, &queries);
        ctx.stats.messages_delivered += (call.queries.len() * 2 + call.auth.len() + 1) as u64;
        ctx.stats.evaluations += 1;
        let o = call.run();
        ctx.stats.state(format!("h{height}|f{}|q{}|none|{}", n_friendly.min(height as u64 + 2), queries.len().min(8), o.class()));
        if !o.is_accept() {
            let class = format!("C04|honest-rejected|{}", o.class());
            if ctx.seen_class(&class) {
                ctx.violation(&class, "", Value::Null);
                continue;
            }
            // minimise the shape before reporting
            let (c2, h2, q2) = match shrink_vec(ctx.seed ^ k, height, n_friendly, &queries, None) {
                Some((c, _, h, q)) => (c, h, q),
                None => (call.clone(), height, queries.clone()),
            };
            let o2 = c2.run();
            let rep = replay_envelope("C04", scenario, &ctx.variant, json!({"call": "vector_decommit", "args": c2.to_json(), "expect": "ok", "expected_outcome": o2.describe(), "found_at": {"height": height, "n_friendly": n_friendly, "queries": queries}}));
            ctx.violation(&class, &format!("honest decommitment rejected: height {h2}, friendly {}, queries {q2:?}: {} (minimised from height {height}, {} queries)", c2.n_friendly, o2.describe(), queries.len()), rep);
            continue;
        }
        if ctx.stats.samples.len() < 3 {
            ctx.stats.sample(json!({"height": height, "n_friendly": n_friendly, "queries": queries, "auth_nodes": call.auth.len()}));
        }
        for (name, faulted) in vec_faults(&call, &mut rng) {
            let o = faulted.run();
            ctx.stats.evaluations += 1;
            let kind = fault_kind(&name);
            ctx.stats.fired(&kind);
            ctx.stats.state(format!("h{height}|f{}|q{}|{}|{}", n_friendly.min(height as u64 + 2), queries.len().min(8), kind, o.class()));
            if o.is_accept() {
                let class = format!("C04|fault-accepted|{kind}");
                if ctx.seen_class(&class) {
                    ctx.violation(&class, "", Value::Null);
                    continue;
                }
                let (f2, name2, h2, q2) = shrink_vec(ctx.seed ^ k, height, n_friendly, &queries, Some(&kind)).unwrap_or((faulted.clone(), name.clone(), height, queries.clone()));
                let o2 = f2.run();
                let rep = replay_envelope("C04", scenario, &ctx.variant, json!({"call": "vector_decommit", "args": f2.to_json(), "expect": "not_ok", "fault": name2, "expected_outcome": o2.describe(), "found_at": {"height": height, "n_friendly": n_friendly, "queries": queries, "fault": name}}));
                ctx.violation(&class, &format!("fault {name2} accepted: height {h2}, friendly {}, queries {q2:?} (minimised from height {height}, {} queries)", f2.n_friendly, queries.len()), rep);
            }
        }
    }
}

// ------------------------------------------------------------------------------------------
// C05
// ------------------------------------------------------------------------------------------

#[derive(Clone)]
struct TabCall {
    n_columns: Felt,
    height: u64,
    n_friendly: u64,
    root: Felt,
    queries: Vec<Felt>,
    values: Vec<Felt>,
    auth: Vec<Felt>,
}

impl TabCall {
    fn to_json(&self) -> Value {
        json!({
            "n_columns": hexf(&self.n_columns), "height": self.height, "n_friendly": self.n_friendly, "root": hexf(&self.root),
            "queries": self.queries.iter().map(hexf).collect::<Vec<_>>(),
            "values": self.values.iter().map(hexf).collect::<Vec<_>>(),
            "auth": self.auth.iter().map(hexf).collect::<Vec<_>>(),
        })
    }
    fn from_json(v: &Value) -> Result<Self, String> {
        let f = |x: &Value| Felt::from_hex(x.as_str().ok_or("not a string")?).map_err(|e| format!("{e:?}"));
        let fs = |x: &Value| x.as_array().ok_or("array")?.iter().map(f).collect::<Result<Vec<_>, String>>();
        Ok(TabCall {
            n_columns: f(&v["n_columns"])?,
            height: v["height"].as_u64().ok_or("height")?,
            n_friendly: v["n_friendly"].as_u64().ok_or("n_friendly")?,
            root: f(&v["root"])?,
            queries: fs(&v["queries"])?,
            values: fs(&v["values"])?,
            auth: fs(&v["auth"])?,
        })
    }
    fn run(&self) -> Outcome {
        let commitment = table::types::Commitment {
            config: table::config::Config {
                n_columns: self.n_columns,
                vector: vector::config::Config {
                    height: Felt::from(self.height),
                    n_verifier_friendly_commitment_layers: Felt::from(self.n_friendly),
                },
            },
            vector_commitment: vector::types::Commitment {
                config: vector::config::Config {
                    height: Felt::from(self.height),
                    n_verifier_friendly_commitment_layers: Felt::from(self.n_friendly),
                },
                commitment_hash: self.root,
            },
        };
        let dec = table::types::Decommitment { values: self.values.clone() };
        let wit = table::types::Witness { vector: vector::types::Witness { authentications: self.auth.clone() } };
        let q = self.queries.clone();
        monitor::guarded(1_000_000, || table::decommit::table_decommit(commitment, &q, dec, wit)).outcome
    }
}

fn tab_faults(call: &TabCall, n_cols: usize, rng: &mut Rng) -> Vec<(String, TabCall)> {
    let mut out = Vec::new();
    let nv = call.values.len();
    // every cell (bounded sample for wide tables)
    let cells: Vec<usize> = if nv <= 96 { (0..nv).collect() } else {
        let mut v: Vec<usize> = (0..24).map(|_| rng.usize_below(nv)).collect();
        v.extend([0, nv - 1, n_cols - 1, n_cols.min(nv - 1)]);
        v.sort();
        v.dedup();
        v
    };
    for i in cells {
        let mut c = call.clone();
        c.values[i] += Felt::ONE;
        out.push((format!("cell[{i}]+1"), c));
        if rng.chance(1, 4) {
            let mut c = call.clone();
            c.values[i] = rng.felt();
            out.push((format!("cell[{i}]=random"), c));
        }
    }
    if n_cols >= 2 {
        // swap two cells of one row (between columns)
        let r = rng.usize_below(nv / n_cols);
        let (a, b) = (r * n_cols, r * n_cols + 1 + rng.usize_below(n_cols - 1));
        let mut c = call.clone();
        c.values.swap(a, b);
        out.push((format!("swap-columns[{a},{b}]"), c));
    }
    if nv / n_cols >= 2 {
        // swap same column between two rows
        let col = rng.usize_below(n_cols);
        let r1 = rng.usize_below(nv / n_cols - 1);
        let (a, b) = (r1 * n_cols + col, (r1 + 1) * n_cols + col);
        let mut c = call.clone();
        c.values.swap(a, b);
        out.push((format!("swap-rows[{a},{b}]"), c));
        // rotate whole value vector by one cell (cells move between rows and columns)
        let mut c = call.clone();
        c.values.rotate_left(1);
        out.push(("rotate-cells".into(), c));
    }
    // cell count +-1
    let mut c = call.clone();
    c.values.push(*call.values.last().unwrap());
    out.push(("cells+1".into(), c));
    let mut c = call.clone();
    c.values.pop();
    out.push(("cells-1".into(), c));
    if n_cols >= 2 {
        // a whole surplus row / a missing row
        let mut c = call.clone();
        c.values.extend_from_slice(&call.values[nv - n_cols..]);
        out.push(("cells+row".into(), c));
        let mut c = call.clone();
        c.values.truncate(nv - n_cols);
        out.push(("cells-row".into(), c));
    }
    // wrong declared column count with consistent-looking length
    if n_cols >= 2 && call.queries.len() % 2 == 0 && !call.queries.is_empty() {
        let mut c = call.clone();
        c.n_columns = Felt::from(2 * n_cols as u64);
        c.queries.truncate(call.queries.len() / 2);
        out.push(("columns*2,queries/2".into(), c));
    }
    for i in 0..call.auth.len().min(6) {
        let mut c = call.clone();
        c.auth[i] += Felt::ONE;
        out.push((format!("auth[{i}]+1"), c));
    }
    let mut c = call.clone();
    c.root += Felt::ONE;
    out.push(("root+1".into(), c));
    out
}

fn honest_tab_call(rng: &mut Rng, n_cols: usize, height: u32, n_friendly: u64, queries: &[u64]) -> TabCall {
    let rows: Vec<Vec<Felt>> = (0..1usize << height).map(|_| distinct_felts(rng, n_cols)).collect();
    let tab = RefTable::build(rows, n_friendly);
    let (values, auth) = tab.open(queries);
    TabCall {
        n_columns: Felt::from(n_cols as u64),
        height: height as u64,
        n_friendly,
        root: tab.root(),
        queries: queries.iter().map(|q| Felt::from(*q)).collect(),
        values,
        auth,
    }
}

/// C05 on tall tables (heights 20..=63, row indices far above 2^32): queried rows and a few others
/// are distinct, all other rows hold one default row (sparse tree, O(rows set × height)).
pub fn c05_tall(ctx: &mut Ctx) {
    let scenario = "core.c05.tall";
    for p in ["tall.query-at-or-above-2^32", "tall.height-above-40"] {
        ctx.stats.declare_probe(p);
    }
    let n_inst: u64 = if ctx.is_quick() { 150 } else { 6_000 };
    for k in 0..n_inst {
        if !ctx.mine(k) {
            continue;
        }
        ctx.begin_run(scenario, k);
        let mut rng = Rng::derive(ctx.seed, scenario, k);
        let height = rng.range(20, 63) as u32;
        let n_cols = match rng.below(4) {
            0 => 1,
            1 => 2,
            _ => rng.range(1, 16) as usize,
        };
        let n_friendly = match rng.below(4) {
            0 => 0,
            1 => 1000,
            _ => rng.range(0, height as u64 + 2),
        };
        let queries = draw_tall_queries(&mut rng, height);
        if queries.iter().any(|q| *q >= 1 << 32) {
            ctx.stats.probe("tall.query-at-or-above-2^32");
        }
        if height > 40 {
            ctx.stats.probe("tall.height-above-40");
        }
        let rows: Vec<(u64, Vec<Felt>)> = queries.iter().map(|q| (*q, distinct_felts(&mut rng, n_cols))).collect();
        let default_row = distinct_felts(&mut rng, n_cols);
        let set: Vec<(u64, Felt)> = rows.iter().map(|(q, r)| (*q, models::row_leaf(r, height, n_friendly))).collect();
        let tree = models::SparseTree::build(height, n_friendly, models::row_leaf(&default_row, height, n_friendly), &set);
        let call = TabCall {
            n_columns: Felt::from(n_cols as u64),
            height: height as u64,
            n_friendly,
            root: tree.root(),
            queries: queries.iter().map(|q| Felt::from(*q)).collect(),
            values: rows.iter().flat_map(|(_, r)| r.iter().copied()).collect(),
            auth: tree.auth(&queries),
        };
        ctx.stats.messages_delivered += (call.values.len() + call.auth.len() + 1) as u64;
        ctx.stats.evaluations += 1;
        let o = call.run();
        ctx.stats.state(format!("tall|c{}|h{}|none|{}", n_cols.min(17), height / 8 * 8, o.class()));
        if !o.is_accept() {
            let rep = replay_envelope("C05", "core.c05", &ctx.variant, json!({"call": "table_decommit", "args": call.to_json(), "expect": "ok", "expected_outcome": o.describe()}));
            ctx.violation(&format!("C05|honest-rejected|{}", o.class()), &format!("honest table decommitment rejected: columns {n_cols}, height {height}, friendly {n_friendly}, queries {queries:?}: {}", o.describe()), rep);
            continue;
        }
        let mut faults = tab_faults(&call, n_cols, &mut rng);
        let cap = if ctx.is_quick() { 48 } else { 160 };
        if faults.len() > cap {
            let stride = faults.len() as f64 / cap as f64;
            let keep: std::collections::BTreeSet<usize> = (0..cap).map(|i| (i as f64 * stride) as usize).collect();
            let mut i = 0;
            faults.retain(|_| {
                i += 1;
                keep.contains(&(i - 1))
            });
        }
        for (name, faulted) in faults {
            let o = faulted.run();
            ctx.stats.evaluations += 1;
            let kind = fault_kind(&name);
            ctx.stats.fired(&kind);
            ctx.stats.state(format!("tall|h{}|{kind}|{}", height / 8 * 8, o.class()));
            if o.is_accept() {
                let rep = replay_envelope("C05", "core.c05", &ctx.variant, json!({"call": "table_decommit", "args": faulted.to_json(), "expect": "not_ok", "fault": name, "expected_outcome": o.describe()}));
                ctx.violation(&format!("C05|fault-accepted|{kind}"), &format!("fault {name} accepted: columns {n_cols}, height {height}, friendly {n_friendly}, queries {queries:?}"), rep);
            }
        }
    }
}

/// Shape shrinking for C05: fewest columns / smallest height / fewest queries on which the same
/// fault kind is still accepted (kind = None: the honest table is still rejected).
fn shrink_tab(seed: u64, n_cols: usize, height: u32, n_friendly: u64, kind: Option<&str>) -> Option<(TabCall, String, String)> {
    let mut col_opts = vec![1usize, 2, 3];
    if !col_opts.contains(&n_cols) {
        col_opts.push(n_cols);
    }
    for cols in col_opts {
        if cols > n_cols {
            continue;
        }
        for h in 0..=height {
            let n = 1u64 << h;
            let mut shapes: Vec<Vec<u64>> = vec![vec![0]];
            if n >= 2 {
                shapes.push(vec![0, n - 1]);
                shapes.push(vec![0, 1]);
            }
            if n >= 4 {
                shapes.push(vec![0, 1, 2]);
            }
            let nfs: Vec<u64> = if n_friendly > height as u64 + 1 { vec![n_friendly] } else { vec![n_friendly.min(h as u64 + 1), n_friendly] };
            for nf in nfs {
                for q in &shapes {
                    let mut rng = Rng::new(seed ^ (cols as u64) << 16 ^ (h as u64) << 8 ^ q.len() as u64);
                    let call = honest_tab_call(&mut rng, cols, h, nf, q);
                    let ok = call.run().is_accept();
                    match kind {
                        None if !ok => return Some((call, "none".into(), format!("columns {cols}, height {h}, friendly {nf}, queries {q:?}"))),
                        Some(k) if ok => {
                            for (name, f) in tab_faults(&call, cols, &mut rng) {
                                if fault_kind(&name) == k && f.run().is_accept() {
                                    return Some((f, name, format!("columns {cols}, height {h}, friendly {nf}, queries {q:?}")));
                                }
                            }
                        }
                        _ => {}
                    }
                }
            }
        }
    }
    None
}

pub fn c05(ctx: &mut Ctx) {
    let scenario = "core.c05";
    for p in ["table.single-column", "table.row-layer-friendly-exactly", "table.row-layer-masked-tree-friendly", "queries.single", "queries.all", "queries.adjacent-siblings"] {
        ctx.stats.declare_probe(p);
    }
    let n_inst: u64 = if ctx.is_quick() { 3_000 } else { 40_000 };
    for k in 0..n_inst {
        if !ctx.mine(k) {
            continue;
        }
        ctx.begin_run(scenario, k);
        let mut rng = Rng::derive(ctx.seed, scenario, k);
        let n_cols = match rng.below(8) {
            0 => 1,
            1 => 2,
            2 => 16,
            3 => 128,
            _ => rng.range(1, 8) as usize,
        };
        let max_h = if n_cols > 16 { 3 } else { 7 };
        let height = rng.range(0, max_h) as u32;
        let n_friendly = draw_friendly(&mut rng, height, &mut ctx.stats);
        if n_cols == 1 {
            ctx.stats.probe("table.single-column");
        }
        if n_friendly == height as u64 + 1 {
            ctx.stats.probe("table.row-layer-friendly-exactly");
        }
        if n_friendly == height as u64 {
            ctx.stats.probe("table.row-layer-masked-tree-friendly");
        }
        let queries = draw_queries(&mut rng, height, &mut ctx.stats);
        let rows: Vec<Vec<Felt>> = (0..1usize << height).map(|_| distinct_felts(&mut rng, n_cols)).collect();
        let tab = RefTable::build(rows, n_friendly);
        let (values, auth) = tab.open(&queries);
        let call = TabCall {
            n_columns: Felt::from(n_cols as u64),
            height: height as u64,
            n_friendly,
            root: tab.root(),
            queries: queries.iter().map(|q| Felt::from(*q)).collect(),
            values,
            auth,
        };
        ctx.stats.messages_delivered += (call.values.len() + call.auth.len() + 1) as u64;
        ctx.stats.evaluations += 1;
        let o = call.run();
        let sc = format!("c{}|h{height}|f{}|q{}", n_cols.min(17), n_friendly.min(height as u64 + 2), queries.len().min(8));
        ctx.stats.state(format!("{sc}|none|{}", o.class()));
        if !o.is_accept() {
            let class = format!("C05|honest-rejected|{}", o.class());
            if ctx.seen_class(&class) {
                ctx.violation(&class, "", Value::Null);
                continue;
            }
            match shrink_tab(ctx.seed ^ k, n_cols, height, n_friendly, None) {
                Some((c2, _, where2)) => {
                    let o2 = c2.run();
                    let rep = replay_envelope("C05", scenario, &ctx.variant, json!({"call": "table_decommit", "args": c2.to_json(), "expect": "ok", "expected_outcome": o2.describe()}));
                    ctx.violation(&class, &format!("honest table decommitment rejected: {where2}: {} (minimised from columns {n_cols}, height {height}, {} queries)", o2.describe(), queries.len()), rep);
                }
                None => {
                    let rep = replay_envelope("C05", scenario, &ctx.variant, json!({"call": "table_decommit", "args": call.to_json(), "expect": "ok", "expected_outcome": o.describe()}));
                    ctx.violation(&class, &format!("honest table decommitment rejected: columns {n_cols}, height {height}, friendly {n_friendly}, queries {queries:?}: {}", o.describe()), rep);
                }
            }
            continue;
        }
        if ctx.stats.samples.len() < 3 {
            ctx.stats.sample(json!({"columns": n_cols, "height": height, "n_friendly": n_friendly, "queries": queries}));
        }
        for (name, faulted) in tab_faults(&call, n_cols, &mut rng) {
            let o = faulted.run();
            ctx.stats.evaluations += 1;
            let kind = fault_kind(&name);
            ctx.stats.fired(&kind);
            ctx.stats.state(format!("{sc}|{kind}|{}", o.class()));
            if o.is_accept() {
                let class = format!("C05|fault-accepted|{kind}");
                if ctx.seen_class(&class) {
                    ctx.violation(&class, "", Value::Null);
                    continue;
                }
                match shrink_tab(ctx.seed ^ k, n_cols, height, n_friendly, Some(&kind)) {
                    Some((f2, name2, where2)) => {
                        let o2 = f2.run();
                        let rep = replay_envelope("C05", scenario, &ctx.variant, json!({"call": "table_decommit", "args": f2.to_json(), "expect": "not_ok", "fault": name2, "expected_outcome": o2.describe()}));
                        ctx.violation(&class, &format!("fault {name2} accepted: {where2} (minimised from columns {n_cols}, height {height}, {} queries)", queries.len()), rep);
                    }
                    None => {
                        let rep = replay_envelope("C05", scenario, &ctx.variant, json!({"call": "table_decommit", "args": faulted.to_json(), "expect": "not_ok", "fault": name, "expected_outcome": o.describe()}));
                        ctx.violation(&class, &format!("fault {name} accepted: columns {n_cols}, height {height}, friendly {n_friendly}, queries {queries:?}"), rep);
                    }
                }
            }
        }
    }
}

// ------------------------------------------------------------------------------------------
// replay of component-level calls
// ------------------------------------------------------------------------------------------

pub fn replay(rep: &Value) -> Result<(bool, String), String> {
    let expect_ok = rep["expect"].as_str() == Some("ok");
    let o = match rep["call"].as_str() {
        Some("vector_decommit") => VecCall::from_json(&rep["args"])?.run(),
        Some("table_decommit") => TabCall::from_json(&rep["args"])?.run(),
        Some(c) if c.starts_with("fri") => return fri_scen::replay(rep),
        Some(c) if c.starts_with("pow") || c.starts_with("transcript") => return misc_scen::replay(rep),
        c => return Err(format!("unknown call {c:?}")),
    };
    let violated = if expect_ok { !o.is_accept() } else { o.is_accept() };
    Ok((violated, o.describe()))
}

#[allow(dead_code)]
pub fn unused(_: &mut RefTranscript) {}
