//! Proof-level scenarios: a complete accepted run (recorded Stone proof or synthetic ToyLayout
//! proof) is the base; the channel applies a fault list to its image; the real
//! `StarkProof::verify` consumes the result. Serves C02 (tamper evidence), C17 (bounded work),
//! C18 (no crashes) and the replay of all three.
use crate::common::{replay_envelope, Ctx};
use crate::image::{self, Fault, LeafKind};
use crate::models;
use crate::monitor::Outcome;
use crate::proofrun::{self, Base};
use crate::rng::Rng;
use serde_json::{json, Value};
use starknet_crypto::Felt;
use std::collections::BTreeMap;

pub const HONEST_TICK_LIMIT: u64 = u64::MAX;

// ------------------------------------------------------------------------------------------
// bases
// ------------------------------------------------------------------------------------------

/// Accepted bases for this build: matching recorded proofs + synthetic ToyLayout proofs.
pub fn collect_bases(ctx: &mut Ctx, scenario: &str, n_toy: u64, toy_offset: u64) -> Vec<Base> {
    let mut bases = Vec::new();
    // synthetic bases first: a violation found on one of them can be shape-shrunk
    for i in 0..n_toy {
        let mut rng = Rng::derive(ctx.seed, &format!("{scenario}.toybase"), toy_offset + i);
        let params = crate::toyprover::ToyParams::draw(&mut rng, ctx.is_quick());
        match crate::toyprover::honest_base(&params) {
            Ok(b) => bases.push(b),
            Err(e) => ctx.harness_error(&format!("toy prover self-check failed: {e} params={params:?}")),
        }
    }
    match proofrun::matching_recorded_bases() {
        Ok(v) => {
            for (b, _) in v {
                bases.push(b);
            }
        }
        Err(e) => ctx.harness_error(&format!("loading recorded proofs: {e}")),
    }
    bases
}

/// Every base must be accepted with no fault (zero-fault configuration); returns its ticks/bytes.
pub fn check_base_accepts(ctx: &mut Ctx, b: &Base) -> Option<(u64, u64)> {
    let r = proofrun::run_image(&b.layout, &b.image, b.security, u64::MAX);
    match r {
        Some(r) if r.outcome.is_accept() => Some((r.ticks, r.bytes)),
        Some(r) => {
            // An honest run that is not accepted: completeness failure, reported under C03/C10 by
            // those checks; here the base is unusable. A crash on an honest run is C18's business.
            if let (Outcome::Panic { loc, .. }, "C18") = (&r.outcome, ctx.property.as_str()) {
                let class = format!("C18|panic|{}", crate::monitor::short_loc(loc));
                let rep = replay_envelope("C18", "c18.malformed", &ctx.variant, replay_body(b, &[], "panic", &r.outcome, json!({"generator": "honest base, no fault"})));
                ctx.violation(&class, &format!("{} on the unfaulted honest base {}", r.outcome.describe(), b.name), rep);
            }
            ctx.stats.skip(&format!("base-not-accepted:{}:{}", b.name, r.outcome.class()));
            None
        }
        None => {
            ctx.stats.skip("base-not-deserialisable");
            None
        }
    }
}

// ------------------------------------------------------------------------------------------
// fault list generators
// ------------------------------------------------------------------------------------------

fn num_value(v: &Value) -> Option<u128> {
    v.as_u64().map(|x| x as u128)
}

/// Single-position replacement faults for one leaf.
pub fn replacement_faults(image: &Value, leaf: &image::Leaf, rng: &mut Rng, all_kinds: bool) -> Vec<(String, Fault)> {
    let path = image::path_str(&leaf.path);
    let old = image::get(image, &leaf.path).unwrap();
    let mut out = Vec::new();
    match leaf.kind {
        LeafKind::Felt => {
            let Some(f) = image::felt_of(old) else { return out };
            let reps = image::felt_replacements(&f, rng);
            let chosen: Vec<_> = if all_kinds {
                reps.into_iter().filter(|(k, _)| ["plus1", "random", "bitflip", "minus1"].contains(k)).collect()
            } else {
                let extra = *rng.pick(&["random", "bitflip", "minus1", "zero"]);
                reps.into_iter().filter(|(k, _)| *k == "plus1" || *k == extra).collect()
            };
            for (k, v) in chosen {
                out.push((k.to_string(), Fault::Set { path: path.clone(), value: image::felt_hex(&v) }));
            }
            // numbers the verifier computes with: a change in the high part only (a conversion that
            // keeps the low machine word must not make it invisible)
            if is_numeric_field(&leaf.path) {
                for (k, d) in [("plus2^64", models::pow2(64)), ("plus2^128", models::pow2(128)), ("plus2^32", models::pow2(32)), ("plus-ord2", models::exponent_aliases(0)[0])] {
                    out.push((k.to_string(), Fault::Set { path: path.clone(), value: image::felt_hex(&(f + d)) }));
                }
            }
        }
        LeafKind::Num => {
            let Some(n) = num_value(old) else { return out };
            let reps = image::num_replacements(n, image::num_max(&leaf.path), rng);
            let chosen: Vec<_> = if all_kinds {
                reps
            } else {
                let extra = *rng.pick(&["random", "minus1", "max"]);
                reps.into_iter().filter(|(k, _)| *k == "plus1" || *k == extra).collect()
            };
            for (k, v) in chosen {
                out.push((k.to_string(), Fault::Set { path: path.clone(), value: v.to_string() }));
            }
        }
    }
    out
}

/// Stratified sample of leaf positions: every position class is represented.
pub fn sample_leaves(image: &Value, rng: &mut Rng, per_class: usize) -> Vec<image::Leaf> {
    let all = image::leaves(image);
    let mut by_class: BTreeMap<String, Vec<image::Leaf>> = BTreeMap::new();
    for l in all {
        by_class.entry(image::path_class(&l.path)).or_default().push(l);
    }
    let mut out = Vec::new();
    for (_, mut v) in by_class {
        if v.len() <= per_class {
            out.extend(v);
        } else {
            // always first and last, rest random
            let first = v.remove(0);
            let last = v.pop().unwrap();
            rng.shuffle(&mut v);
            v.truncate(per_class.saturating_sub(2));
            out.push(first);
            out.extend(v);
            out.push(last);
        }
    }
    out
}

pub fn deletion_faults(image: &Value, rng: &mut Rng, exhaustive: bool) -> Vec<Fault> {
    let mut out = Vec::new();
    for (p, len) in image::vectors(image) {
        let path = image::path_str(&p);
        if len == 0 {
            continue;
        }
        let idx: Vec<usize> = if exhaustive || len <= 3 {
            (0..len).collect()
        } else {
            let mut v = vec![0, len - 1, 1 + rng.usize_below(len - 2)];
            v.sort();
            v.dedup();
            v
        };
        for i in idx {
            out.push(Fault::Delete { path: path.clone(), index: i });
        }
    }
    out
}

pub fn extreme_felts() -> Vec<(&'static str, Felt)> {
    vec![
        ("0", Felt::ZERO),
        ("1", Felt::ONE),
        ("5", Felt::from(5u64)),
        ("17", Felt::from(17u64)),
        ("30", Felt::from(30u64)),
        ("63", Felt::from(63u64)),
        ("65", Felt::from(65u64)),
        ("2^16", models::pow2(16)),
        ("2^22", models::pow2(22)),
        ("2^26", models::pow2(26)),
        ("2^31", models::pow2(31)),
        ("2^32-1", models::pow2(32) - Felt::ONE),
        ("2^32", models::pow2(32)),
        ("2^40", models::pow2(40)),
        ("2^61", models::pow2(61)),
        ("2^63", models::pow2(63)),
        ("2^64-1", models::pow2(64) - Felt::ONE),
        ("2^64", models::pow2(64)),
        ("2^64+2", models::pow2(64) + Felt::TWO),
        ("2^64+10", models::pow2(64) + Felt::from(10u64)),
        ("2^128", models::pow2(128)),
        ("2^128+3", models::pow2(128) + Felt::THREE),
        ("2^192+5", models::pow2(192) + Felt::from(5u64)),
        ("p-1", Felt::ZERO - Felt::ONE),
        ("p-2", Felt::ZERO - Felt::TWO),
        // aliases of small exponents: 2^(e + ord 2) = 2^e
        ("ord2+1", models::exponent_aliases(1)[0]),
        ("ord2+4", models::exponent_aliases(4)[0]),
        ("ord2+20", models::exponent_aliases(20)[0]),
    ]
}

pub fn extreme_nums(max: u128) -> Vec<(&'static str, u128)> {
    let mut v: Vec<(&'static str, u128)> = vec![
        ("0", 0),
        ("1", 1),
        ("2^16", 1 << 16),
        ("2^18", 1 << 18),
        ("2^31", 1 << 31),
        ("2^40", 1 << 40),
        ("2^62", 1 << 62),
        ("max", max.min(u64::MAX as u128)),
    ];
    v.retain(|(_, x)| *x <= max);
    v
}

/// Is this leaf a "numeric field" in the sense of C17/C18 (a number the verifier computes with,
/// not a hash / evaluation)?
pub fn is_numeric_field(path: &image::Path) -> bool {
    let s = image::path_class(path);
    s.starts_with("config.")
        || s.starts_with("public_input.")
        || s == "unsent_commitment.proof_of_work.nonce"
}

/// Re-declares the configuration fields that depend on the ones just changed, so that the
/// hostile value survives cross-validation as far as the code lets it (Byzantine form).
/// Returns the extra Set faults.
pub fn redeclare(image: &Value) -> Vec<Fault> {
    let cfg = &image["config"];
    let f = |v: &Value| image::felt_of(v).unwrap_or(Felt::ZERO);
    let log_trace = f(&cfg["log_trace_domain_size"]);
    let log_cosets = f(&cfg["log_n_cosets"]);
    let nvf = f(&cfg["n_verifier_friendly_commitment_layers"]);
    let log_eval = log_trace + log_cosets;
    let mut out = Vec::new();
    let mut set = |path: String, val: Felt| {
        let p = image::parse_path(&path);
        if let Some(old) = image::get(image, &p).and_then(image::felt_of) {
            if old != val {
                out.push(Fault::Set { path, value: image::felt_hex(&val) });
            }
        }
    };
    for t in ["config.traces.original", "config.traces.interaction", "config.composition"] {
        set(format!("{t}.vector.height"), log_eval);
        set(format!("{t}.vector.n_verifier_friendly_commitment_layers"), nvf);
    }
    set("config.fri.log_input_size".into(), log_eval);
    let steps: Vec<Felt> = cfg["fri"]["fri_step_sizes"].as_array().map(|a| a.iter().map(f).collect()).unwrap_or_default();
    let n_inner = cfg["fri"]["inner_layers"].as_array().map(|a| a.len()).unwrap_or(0);
    let mut h = log_eval;
    for i in 0..n_inner {
        if let Some(s) = steps.get(i + 1) {
            h -= *s;
            set(format!("config.fri.inner_layers[{i}].vector.height"), h);
            set(format!("config.fri.inner_layers[{i}].vector.n_verifier_friendly_commitment_layers"), nvf);
            if *s <= Felt::from(16u64) {
                let k: u64 = s.to_biguint().try_into().unwrap_or(0);
                set(format!("config.fri.inner_layers[{i}].n_columns"), models::pow2(k));
            }
        }
    }
    // last layer bound: keep sum(steps) + bound + cosets == log_input_size
    let used: Felt = steps.iter().skip(1).take(n_inner).fold(Felt::ZERO, |a, b| a + b);
    set("config.fri.log_last_layer_degree_bound".into(), log_eval - log_cosets - used);
    out
}

/// Byzantine re-declaration of the *trace length*: every number that configuration and
/// public-input validation tie to it is re-declared consistently (step count, commitment heights,
/// FRI input size, extra FRI layers of step 4 with their descriptions, commitments and witnesses
/// repeated), all supplied data stays. Validation passes; the first check that can fail is the
/// out-of-domain one, and everything before it works with a hostile 2^L.
pub fn byzantine_trace_lengths(image: &Value) -> Vec<(String, Vec<Fault>)> {
    let cfg = &image["config"];
    let f = |v: &Value| image::felt_of(v).unwrap_or(Felt::ZERO);
    let to_u = |x: Felt| -> Option<u64> { x.to_biguint().try_into().ok() };
    let (Some(log_trace), Some(log_cosets), Some(last)) = (to_u(f(&cfg["log_trace_domain_size"])), to_u(f(&cfg["log_n_cosets"])), to_u(f(&cfg["fri"]["log_last_layer_degree_bound"]))) else { return vec![] };
    let Some(log_n_steps) = to_u(f(&image["public_input"]["log_n_steps"])) else { return vec![] };
    let steps: Vec<u64> = cfg["fri"]["fri_step_sizes"].as_array().map(|a| a.iter().filter_map(|v| to_u(f(v))).collect()).unwrap_or_default();
    let n_inner = cfg["fri"]["inner_layers"].as_array().map(|a| a.len()).unwrap_or(0);
    if n_inner == 0 || steps.len() != n_inner + 1 || log_trace > 60 || log_trace < log_n_steps {
        return vec![];
    }
    let nvf = f(&cfg["n_verifier_friendly_commitment_layers"]);
    let hexu = |x: u64| image::felt_hex(&Felt::from(x));
    let mut out = Vec::new();
    for l_new in [log_trace + 1, log_trace + 4, 30, 40, 48, 60] {
        if l_new <= log_trace || l_new + log_cosets > 63 {
            continue;
        }
        let mut new_steps = steps.clone();
        let mut missing = l_new - log_trace;
        while missing > 0 {
            let s = missing.min(4);
            new_steps.push(s);
            missing -= s;
        }
        if new_steps.len() > 15 {
            continue;
        }
        let log_eval = l_new + log_cosets;
        let mut fl = vec![
            Fault::Set { path: "config.log_trace_domain_size".into(), value: hexu(l_new) },
            Fault::Set { path: "public_input.log_n_steps".into(), value: hexu(log_n_steps + (l_new - log_trace)) },
            Fault::Set { path: "config.fri.log_input_size".into(), value: hexu(log_eval) },
            Fault::Set { path: "config.fri.n_layers".into(), value: hexu(new_steps.len() as u64) },
        ];
        for t in ["config.traces.original", "config.traces.interaction", "config.composition"] {
            fl.push(Fault::Set { path: format!("{t}.vector.height"), value: hexu(log_eval) });
        }
        let mut h = log_eval;
        for (i, s) in new_steps.iter().enumerate().skip(1) {
            h -= s;
            if i > n_inner {
                fl.push(Fault::Append { path: "config.fri.fri_step_sizes".into(), value: Some(hexu(*s)) });
                fl.push(Fault::Append { path: "config.fri.inner_layers".into(), value: None });
                fl.push(Fault::Append { path: "unsent_commitment.fri.inner_layers".into(), value: None });
                fl.push(Fault::Append { path: "witness.fri_witness.layers".into(), value: None });
            }
            fl.push(Fault::Set { path: format!("config.fri.inner_layers[{}].vector.height", i - 1), value: hexu(h) });
            fl.push(Fault::Set { path: format!("config.fri.inner_layers[{}].n_columns", i - 1), value: image::felt_hex(&models::pow2(*s)) });
            fl.push(Fault::Set { path: format!("config.fri.inner_layers[{}].vector.n_verifier_friendly_commitment_layers", i - 1), value: image::felt_hex(&nvf) });
        }
        let _ = last;
        out.push((format!("trace-length:{l_new}"), fl));
    }
    out
}

/// Byzantine multi-field re-declarations of the FRI description that keep every cross-check the
/// configuration validation is *supposed* to make consistent except the one bound under attack:
/// one inner layer with a single big step S (sum of steps + last-layer bound still equals the
/// trace exponent, heights telescope, 2^S columns).
pub fn byzantine_fri_redeclarations(image: &Value) -> Vec<(String, Vec<Fault>)> {
    let cfg = &image["config"];
    let f = |v: &Value| image::felt_of(v).unwrap_or(Felt::ZERO);
    let to_u = |x: Felt| -> Option<u64> { x.to_biguint().try_into().ok() };
    let (Some(log_trace), Some(log_cosets)) = (to_u(f(&cfg["log_trace_domain_size"])), to_u(f(&cfg["log_n_cosets"]))) else { return vec![] };
    let n_inner = cfg["fri"]["inner_layers"].as_array().map(|a| a.len()).unwrap_or(0);
    if n_inner == 0 || log_trace > 64 {
        return vec![];
    }
    let log_eval = log_trace + log_cosets;
    let mut out = Vec::new();
    for s_big in [5u64, 6, 9, 13, 17, 20, log_trace] {
        if s_big > log_trace || log_trace - s_big > 15 {
            continue;
        }
        let hexu = |x: u64| image::felt_hex(&Felt::from(x));
        let fl = vec![
            Fault::Truncate { path: "config.fri.fri_step_sizes".into(), len: 2 },
            Fault::Set { path: "config.fri.fri_step_sizes[1]".into(), value: hexu(s_big) },
            Fault::Truncate { path: "config.fri.inner_layers".into(), len: 1 },
            Fault::Set { path: "config.fri.inner_layers[0].n_columns".into(), value: image::felt_hex(&models::pow2(s_big)) },
            Fault::Set { path: "config.fri.inner_layers[0].vector.height".into(), value: hexu(log_eval - s_big) },
            Fault::Set { path: "config.fri.n_layers".into(), value: hexu(2) },
            Fault::Set { path: "config.fri.log_last_layer_degree_bound".into(), value: hexu(log_trace - s_big) },
            Fault::Truncate { path: "unsent_commitment.fri.inner_layers".into(), len: 1 },
            Fault::Truncate { path: "witness.fri_witness.layers".into(), len: 1 },
        ];
        out.push((format!("fri-one-big-step:{s_big}"), fl));
    }
    out
}

// ------------------------------------------------------------------------------------------
// running one faulted proof
// ------------------------------------------------------------------------------------------

pub struct Mutant {
    pub image: Value,
    pub run: proofrun::ProofRun,
}

pub fn run_faults(base: &Base, faults: &[Fault], tick_limit: u64) -> Option<Mutant> {
    let image = proofrun::apply_faults(&base.image, faults)?;
    let run = proofrun::run_image(&base.layout, &image, base.security, tick_limit)?;
    Some(Mutant { image, run })
}

pub fn replay_body(base: &Base, faults: &[Fault], oracle: &str, outcome: &Outcome, extra: Value) -> Value {
    json!({
        "base": base.spec,
        "layout": base.layout,
        "faults": faults,
        "oracle": oracle,
        "expected_outcome": outcome.describe(),
        "extra": extra,
    })
}

/// Greedy minimisation of a fault list: drop faults one at a time, then simplify values, while
/// `still_fails` holds.
pub fn minimise(faults: &[Fault], still_fails: &mut dyn FnMut(&[Fault]) -> bool) -> Vec<Fault> {
    let mut cur: Vec<Fault> = faults.to_vec();
    let mut progress = true;
    while progress && cur.len() > 1 {
        progress = false;
        for i in 0..cur.len() {
            let mut cand = cur.clone();
            cand.remove(i);
            if still_fails(&cand) {
                cur = cand;
                progress = true;
                break;
            }
        }
    }
    cur
}

/// Shape shrinking for violations found on a synthetic (ToyLayout) base: the smallest honest toy
/// proof on which a single fault of the same class (kind @ position class) is judged a violation
/// by `violates`. Returns the smaller base and the concrete fault.
pub fn shrink_toy(seed: u64, fault: &Fault, violates: &mut dyn FnMut(&Base, &Fault) -> bool) -> Option<(Base, Fault)> {
    use crate::toyprover::{honest_base, ToyParams};
    let want_class = fault.class();
    for (t, steps, last) in [(1u32, vec![0u32, 1], 0u32), (2, vec![0, 1], 1), (2, vec![0, 1, 1], 0), (3, vec![0, 2], 1), (3, vec![0, 1, 1, 1], 0)] {
        for nq in [1u64, 2, 5] {
            for nf in [0u64, 1000] {
                let p = ToyParams { log_trace: t, log_blowup: 1, steps: steps.clone(), log_last: last, n_queries: nq, pow_bits: 20, n_friendly: nf, seed: seed ^ (t as u64) << 8 ^ nq };
                let Ok(base) = honest_base(&p) else { continue };
                // candidate positions of the same class: first, last and middle
                let cands: Vec<Fault> = match fault {
                    Fault::Set { value, .. } => {
                        let leaves: Vec<_> = image::leaves(&base.image).into_iter().filter(|l| format!("set@{}", image::path_class(&l.path)) == want_class).collect();
                        let pick: Vec<usize> = if leaves.is_empty() { vec![] } else { vec![0, leaves.len() / 2, leaves.len() - 1] };
                        pick.into_iter()
                            .map(|i| {
                                let l = &leaves[i];
                                let old = image::get(&base.image, &l.path).unwrap();
                                // keep "+1" semantics where possible, otherwise the recorded value
                                let v = match image::felt_of(old) {
                                    Some(f) => image::felt_hex(&(f + Felt::ONE)),
                                    None => old.as_u64().map(|n| (n + 1).to_string()).unwrap_or_else(|| value.clone()),
                                };
                                Fault::Set { path: image::path_str(&l.path), value: v }
                            })
                            .collect()
                    }
                    Fault::Delete { .. } => image::vectors(&base.image)
                        .into_iter()
                        .filter(|(p, len)| *len > 0 && format!("delete@{}", image::path_class(p)) == want_class)
                        .flat_map(|(p, len)| [0, len - 1].into_iter().map(move |i| Fault::Delete { path: image::path_str(&p), index: i }))
                        .collect(),
                    _ => vec![],
                };
                for c in cands {
                    if violates(&base, &c) {
                        return Some((base, c));
                    }
                }
            }
        }
    }
    None
}

// ------------------------------------------------------------------------------------------
// C02
// ------------------------------------------------------------------------------------------

/// Is the faulted nonce / difficulty independently valid for the faulted run? (then the mutant
/// is a legitimate alternative proof, not a tamper-evidence failure)
fn pow_fault_is_legit(fault: &Fault) -> bool {
    // A replaced nonce (or n_bits) could by luck (2^-20..2^-30) satisfy the proof of work for the
    // same digest; the digest before the nonce does not depend on the nonce, so the mutant would
    // be a different, honestly valid proof. We cannot see the digest from outside the run, so the
    // relaxation is applied to the position class only and counted.
    let p = fault.path();
    p == "unsent_commitment.proof_of_work.nonce"
}

pub fn c02(ctx: &mut Ctx) {
    let scenario = "c02.tamper";
    let n_toy = if ctx.is_quick() { 12 } else { 120 };
    let bases = collect_bases(ctx, scenario, n_toy, 0);
    let exhaustive = !ctx.is_quick();
    let mut unit: u64 = 0;
    for (bi, base) in bases.iter().enumerate() {
        let mut rng = Rng::derive(ctx.seed, scenario, bi as u64);
        // Build the work list deterministically (same on every worker), then shard.
        let leaves = if exhaustive { image::leaves(&base.image) } else { sample_leaves(&base.image, &mut rng, 6) };
        let mut work: Vec<(String, Fault)> = Vec::new();
        for l in &leaves {
            work.extend(replacement_faults(&base.image, l, &mut rng, exhaustive));
        }
        for f in deletion_faults(&base.image, &mut rng, exhaustive) {
            work.push(("delete".into(), f));
        }
        let mine: Vec<_> = work
            .into_iter()
            .filter(|_| {
                let m = ctx.mine(unit);
                unit += 1;
                m
            })
            .collect();
        if mine.is_empty() {
            continue;
        }
        if check_base_accepts(ctx, base).is_none() {
            continue;
        }
        ctx.stats.messages_delivered += proofrun::scalar_count(&base.image);
        // a hostile loop bound must end the run, not hang the batch (OVERWORK is "not accepted")
        let limit = c17_budget(proofrun::scalar_count(&base.image), &base.layout).0 * 4;
        for (kind, fault) in mine {
            ctx.begin_run(scenario, unit);
            let Some(m) = run_faults(base, std::slice::from_ref(&fault), limit) else {
                ctx.stats.skip("fault-noop-or-illtyped");
                continue;
            };
            ctx.stats.evaluations += 1;
            ctx.stats.fired(fault.kind());
            ctx.stats.ticks_total += m.run.ticks;
            let oc = m.run.outcome.class();
            ctx.stats.outcome(if m.run.outcome.is_accept() { "ACCEPT" } else if m.run.outcome.is_reject() { "REJECT" } else { "PANIC/OVERWORK" });
            ctx.stats.state(format!("{}|{}|{}|{}", base.layout, kind, fault.class(), oc));
            if ctx.stats.samples.len() < 4 {
                ctx.stats.sample(json!({"base": base.name, "fault": fault, "outcome": m.run.outcome.describe()}));
            }
            if m.run.outcome.is_accept() {
                if fault.path() == "config.n_queries" {
                    // With de-duplicated queries a larger declared count whose extra samples all
                    // collide with existing indices yields the *same* query set; the configuration
                    // is not part of the transcript (Stone protocol), so this mutant cannot be
                    // told apart. Classified separately so that any other accepted n_queries
                    // mutant is still reported under its own class.
                    let q0 = query_set_of_run(&base.layout, &base.image, base.security);
                    let q1 = query_set_of_run(&base.layout, &m.image, base.security);
                    if q0.is_some() && q0 == q1 {
                        let class = "C02|accepted|n_queries-extra-samples-collide".to_string();
                        let replay = replay_envelope("C02", scenario, &ctx.variant, replay_body(base, &[fault.clone()], "mutant-accepted", &m.run.outcome, json!({"replacement": kind, "query_set": q0})));
                        ctx.violation(&class, &format!("{:?} on base {}: the extra query samples collide with existing indices, same query set", fault, base.name), replay);
                        continue;
                    }
                }
                if pow_fault_is_legit(&fault) {
                    // independently confirm with the reference PoW model on the unfaulted digest:
                    // cannot be done from outside; count and skip (probability <= 2^-20 per trial)
                    ctx.stats.probe("pow-position-accepted-by-luck");
                    continue;
                }
                let class = format!("C02|accepted|{}", fault.class());
                if ctx.seen_class(&class) {
                    ctx.violation(&class, "", Value::Null);
                    continue;
                }
                if base.layout == "toy" {
                    // minimise the synthetic base
                    let shrunk = shrink_toy(ctx.seed ^ unit, &fault, &mut |b, f| run_faults(b, std::slice::from_ref(f), u64::MAX).map(|m| m.run.outcome.is_accept()).unwrap_or(false));
                    if let Some((b2, f2)) = shrunk {
                        let m2 = run_faults(&b2, std::slice::from_ref(&f2), u64::MAX).unwrap();
                        let replay = replay_envelope("C02", scenario, &ctx.variant, replay_body(&b2, &[f2.clone()], "mutant-accepted", &m2.run.outcome, json!({"minimised_from": base.name})));
                        ctx.violation(&class, &format!("single fault {:?} on accepted base {} is accepted (minimised from {})", f2, b2.name, base.name), replay);
                        continue;
                    }
                }
                let replay = replay_envelope("C02", scenario, &ctx.variant, replay_body(base, &[fault.clone()], "mutant-accepted", &m.run.outcome, json!({"replacement": kind})));
                ctx.violation(&class, &format!("single fault {:?} on accepted base {} is accepted", fault, base.name), replay);
            }
        }
    }
    // control: appended trailing elements are tolerated by the property; they must not be
    // counted as faults. (No check: either verdict is fine.)
}

/// The de-duplicated query index set of a run, reconstructed from the recorded transcript events
/// (the squeezes after the last absorbed message) with the reference query model.
pub fn query_set_of_run(layout: &str, image: &Value, security: Felt) -> Option<Vec<u64>> {
    use swiftness_transcript::verif::{self, Event};
    let proof: swiftness_stark::types::StarkProof = serde_json::from_value(image.clone()).ok()?;
    verif::start_recording();
    let _ = proofrun::run_proof(layout, &proof, security, u64::MAX);
    let events = verif::take_events();
    let last_absorb = events.iter().rposition(|e| matches!(e, Event::Absorb { .. }))?;
    let cfg = &image["config"];
    let log_eval = image::felt_of(&cfg["log_trace_domain_size"])? + image::felt_of(&cfg["log_n_cosets"])?;
    let log_eval: u64 = log_eval.to_biguint().try_into().ok()?;
    if log_eval > 63 {
        return None;
    }
    let mut set: Vec<u64> = events[last_absorb + 1..]
        .iter()
        .filter_map(|e| match e {
            Event::Squeeze { out, .. } => {
                let b = out.to_bytes_be();
                let mut lo = [0u8; 16];
                lo.copy_from_slice(&b[16..]);
                Some((u128::from_be_bytes(lo) & ((1u128 << log_eval) - 1)) as u64)
            }
            _ => None,
        })
        .collect();
    set.sort();
    set.dedup();
    Some(set)
}

// ------------------------------------------------------------------------------------------
// C18
// ------------------------------------------------------------------------------------------

pub fn structural_faults(image: &Value, rng: &mut Rng, exhaustive: bool) -> Vec<Vec<Fault>> {
    let mut out: Vec<Vec<Fault>> = Vec::new();
    for (p, len) in image::vectors(image) {
        let path = image::path_str(&p);
        for l in [0usize, 1, len.saturating_sub(1)] {
            if l < len {
                out.push(vec![Fault::Truncate { path: path.clone(), len: l }]);
            }
        }
        if len > 0 {
            let idxs: Vec<usize> = if exhaustive && len <= 64 || len <= 3 {
                (0..len).collect()
            } else {
                let mut v = vec![0, len - 1, rng.usize_below(len)];
                v.sort();
                v.dedup();
                v
            };
            for i in idxs {
                out.push(vec![Fault::Delete { path: path.clone(), index: i }]);
                out.push(vec![Fault::Dup { path: path.clone(), index: i }]);
            }
            out.push(vec![Fault::Append { path: path.clone(), value: None }]);
            if len >= 2 {
                let i = rng.usize_below(len - 1);
                out.push(vec![Fault::Swap { path: path.clone(), i, j: i + 1 }]);
                // shift by one: drop first, append copy of last
                out.push(vec![Fault::Delete { path: path.clone(), index: 0 }, Fault::Append { path: path.clone(), value: None }]);
            }
        } else {
            out.push(vec![Fault::Append { path: path.clone(), value: Some("0x1".into()) }]);
        }
    }
    if image["public_input"].get("dynamic_params").is_some() {
        out.push(vec![Fault::RemoveKey { path: "public_input.dynamic_params".into() }]);
    }
    out
}

pub fn numeric_faults(image: &Value, with_redeclare: bool) -> Vec<(String, Vec<Fault>)> {
    let mut out = Vec::new();
    for l in image::leaves(image) {
        if !is_numeric_field(&l.path) {
            continue;
        }
        let path = image::path_str(&l.path);
        let old = image::get(image, &l.path).unwrap();
        match l.kind {
            LeafKind::Felt => {
                let Some(cur) = image::felt_of(old) else { continue };
                // statement numbers (addresses, bounds): distances matter, not only magnitudes -- a
                // length computed as a difference lands just below / at a machine-word boundary
                if path.starts_with("public_input.") {
                    for (name, d) in [("rel+2^32", models::pow2(32)), ("rel+2^63", models::pow2(63)), ("rel+2^64-40", models::pow2(64) - Felt::from(40u64)), ("rel+2^64-1", models::pow2(64) - Felt::ONE)] {
                        out.push((name.to_string(), vec![Fault::Set { path: path.clone(), value: image::felt_hex(&(cur + d)) }]));
                    }
                    out.push(("rel-1".to_string(), vec![Fault::Set { path: path.clone(), value: image::felt_hex(&(cur - Felt::ONE)) }]));
                    // a segment's span (stop - begin) placed exactly at machine-word boundaries
                    if let Some(prefix) = path.strip_suffix(".stop_ptr") {
                        if let Some(b) = image::get(image, &image::parse_path(&format!("{prefix}.begin_addr"))).and_then(image::felt_of) {
                            for (name, d) in [("span=2^32", models::pow2(32)), ("span=2^63", models::pow2(63)), ("span=2^64-40", models::pow2(64) - Felt::from(40u64)), ("span=2^64-1", models::pow2(64) - Felt::ONE), ("span=2^64", models::pow2(64)), ("span=-1", Felt::ZERO - Felt::ONE)] {
                                out.push((name.to_string(), vec![Fault::Set { path: path.clone(), value: image::felt_hex(&(b + d)) }]));
                            }
                        }
                    }
                }
                for (name, v) in extreme_felts() {
                    if v == cur {
                        continue;
                    }
                    let f = Fault::Set { path: path.clone(), value: image::felt_hex(&v) };
                    out.push((name.to_string(), vec![f.clone()]));
                    if with_redeclare && path.starts_with("config.") {
                        let mut img = image.clone();
                        if image::apply(&mut img, &f).is_ok() {
                            let extra = redeclare(&img);
                            if !extra.is_empty() {
                                let mut fl = vec![f];
                                fl.extend(extra);
                                out.push((format!("{name}+redeclare"), fl));
                            }
                        }
                    }
                }
            }
            LeafKind::Num => {
                let Some(cur) = num_value(old) else { continue };
                for (name, v) in extreme_nums(image::num_max(&l.path)) {
                    if v == cur {
                        continue;
                    }
                    out.push((name.to_string(), vec![Fault::Set { path: path.clone(), value: v.to_string() }]));
                }
            }
        }
    }
    out
}

fn c18_class(outcome: &Outcome) -> Option<String> {
    match outcome {
        Outcome::Panic { loc, .. } => Some(format!("C18|panic|{}", crate::monitor::short_loc(loc))),
        _ => None,
    }
}

pub fn c18(ctx: &mut Ctx) {
    let scenario = "c18.malformed";
    let n_toy = if ctx.is_quick() { 6 } else { 60 };
    let bases = collect_bases(ctx, scenario, n_toy, 0);
    let exhaustive = !ctx.is_quick();
    let mut unit: u64 = 0;
    for (bi, base) in bases.iter().enumerate() {
        let mut rng = Rng::derive(ctx.seed, scenario, bi as u64);
        let mut work: Vec<(String, Vec<Fault>)> = Vec::new();
        for fl in structural_faults(&base.image, &mut rng, exhaustive) {
            work.push(("structural".into(), fl));
        }
        let mut nf = numeric_faults(&base.image, true);
        if !exhaustive && nf.len() > 900 {
            // dynamic layout has hundreds of numeric parameters: sample, but keep sizes/ratios/counts
            let (keep, mut rest): (Vec<_>, Vec<_>) = nf.into_iter().partition(|(_, fl)| {
                fl.first().map(|f| { let p = f.path(); p.contains("row_ratio") || p.contains("n_columns") || p.contains("n_queries") || p.contains("n_layers") || p.contains("log_") || p.contains("step") }).unwrap_or(false)
            });
            rng.shuffle(&mut rest);
            rest.truncate(900usize.saturating_sub(keep.len()).max(200));
            nf = keep;
            nf.extend(rest);
        }
        work.extend(nf.into_iter().map(|(n, f)| (format!("numeric:{n}"), f)));
        work.extend(byzantine_fri_redeclarations(&base.image).into_iter().map(|(n, f)| (format!("byzantine:{n}"), f)));
        work.extend(byzantine_trace_lengths(&base.image).into_iter().map(|(n, f)| (format!("byzantine:{n}"), f)));
        // combinations of 2..4 single faults
        let singles: Vec<Vec<Fault>> = work.iter().map(|(_, f)| f.clone()).collect();
        let n_combo = if exhaustive { 400 } else { 40 };
        for _ in 0..n_combo {
            let k = rng.range(2, 4) as usize;
            let mut fl = Vec::new();
            for _ in 0..k {
                fl.extend(rng.pick(&singles).clone());
            }
            work.push(("combo".into(), fl));
        }
        let mine: Vec<_> = work
            .into_iter()
            .filter(|_| {
                let m = ctx.mine(unit);
                unit += 1;
                m
            })
            .collect();
        if mine.is_empty() || check_base_accepts(ctx, base).is_none() {
            continue;
        }
        let budget = c17_budget(proofrun::scalar_count(&base.image), &base.layout);
        for (kind, faults) in mine {
            ctx.begin_run(scenario, unit);
            // Work is limited so that a hostile loop bound ends the run instead of hanging it;
            // OVERWORK is C17's business, not C18's.
            let Some(m) = run_faults(base, &faults, budget.0 * 4) else {
                ctx.stats.skip("fault-noop-or-illtyped");
                continue;
            };
            ctx.stats.evaluations += 1;
            for f in &faults {
                ctx.stats.fired(f.kind());
            }
            ctx.stats.ticks_total += m.run.ticks;
            let oc = m.run.outcome.class();
            ctx.stats.outcome(match &m.run.outcome {
                Outcome::Accept(_) => "ACCEPT",
                Outcome::Reject { .. } => "REJECT",
                Outcome::Panic { .. } => "PANIC",
                Outcome::Overwork { .. } => "OVERWORK",
            });
            let fclass = faults.first().map(|f| f.class()).unwrap_or_default();
            ctx.stats.state(format!("{}|{}|{}|{}", base.layout, kind.split(':').next().unwrap_or(""), fclass, oc));
            if ctx.stats.samples.len() < 4 {
                ctx.stats.sample(json!({"base": base.name, "faults": faults, "outcome": m.run.outcome.describe()}));
            }
            if let Some(class) = c18_class(&m.run.outcome) {
                if ctx.seen_class(&class) {
                    ctx.violation(&class, "", Value::Null);
                    continue;
                }
                let target = class.clone();
                let min = minimise(&faults, &mut |fl| {
                    run_faults(base, fl, budget.0 * 4).and_then(|m| c18_class(&m.run.outcome)).as_deref() == Some(target.as_str())
                });
                let m2 = run_faults(base, &min, budget.0 * 4).unwrap();
                let replay = replay_envelope("C18", scenario, &ctx.variant, replay_body(base, &min, "panic", &m2.run.outcome, json!({"generator": kind})));
                ctx.violation(&class, &format!("{} on base {} via {:?}", m2.run.outcome.describe(), base.name, min), replay);
            }
        }
    }
    c18_entry_points(ctx, &bases);
    byzantine_shapes(ctx, "C18");
}

/// The three other entry points named by the property, taken alone.
fn c18_entry_points(ctx: &mut Ctx, bases: &[Base]) {
    use swiftness_stark::types::StarkProof;
    let scenario = "c18.entrypoints";
    let mut unit = 0u64;
    for (bi, base) in bases.iter().enumerate() {
        let mut rng = Rng::derive(ctx.seed, scenario, bi as u64);
        let mut work: Vec<Vec<Fault>> = Vec::new();
        for fl in structural_faults(&base.image, &mut rng, false) {
            if fl.iter().all(|f| f.path().starts_with("config") || f.path().starts_with("public_input")) {
                work.push(fl);
            }
        }
        for (_, fl) in numeric_faults(&base.image, false) {
            work.push(fl);
        }
        if ctx.is_quick() && work.len() > 300 {
            // keep every fault on a segment bound (few fields, each guards a length computation);
            // sample the rest (main-page cells and dynamic parameters dominate by count)
            let (keep, mut rest): (Vec<_>, Vec<_>) = work.into_iter().partition(|fl| fl.iter().all(|f| f.path().contains(".segments[")));
            rng.shuffle(&mut rest);
            rest.truncate(300);
            work = keep;
            work.extend(rest);
        }
        for faults in work {
            let m = ctx.mine(unit);
            unit += 1;
            if !m {
                continue;
            }
            let Some(img) = proofrun::apply_faults(&base.image, &faults) else { continue };
            let Ok(proof) = serde_json::from_value::<StarkProof>(img) else { continue };
            for ep in ["config.validate", "validate_public_input", "verify_public_input"] {
                let run = crate::entry::run_entry(ep, &base.layout, &proof, base.security);
                ctx.stats.evaluations += 1;
                ctx.stats.state(format!("{}|{}|{}", base.layout, ep, run.outcome.class()));
                if let Outcome::Panic { loc, .. } = &run.outcome {
                    let class = format!("C18|panic|{}", crate::monitor::short_loc(loc));
                    let replay = replay_envelope("C18", scenario, &ctx.variant, json!({
                        "base": base.spec, "layout": base.layout, "faults": faults, "entry": ep,
                        "oracle": "panic", "expected_outcome": run.outcome.describe()}));
                    ctx.violation(&class, &format!("{} in {} on base {} via {:?}", run.outcome.describe(), ep, base.name, faults), replay);
                }
            }
        }
    }
}

// ------------------------------------------------------------------------------------------
// C17
// ------------------------------------------------------------------------------------------

/// Frozen linear budget B(s) = A*s + K(layout) in ticks and bytes. Calibrated once from the
/// honest runs (every honest run uses <= B/4); see DESIGN.md C17.
pub fn c17_budget(s: u64, layout: &str) -> (u64, u64) {
    let k_ticks: u64 = match layout {
        "toy" => 2_000,
        _ => 20_000,
    };
    // bytes: honest runs request about 300-450 bytes per scalar of the proof plus ~0.5 MiB for the
    // layout's composition evaluation; the budget is ~10x that (calibration: honest <= 1/4)
    let k_bytes: u64 = match layout {
        "toy" => 1 << 20,
        _ => 4 << 20,
    };
    (40 * s + k_ticks, 4_000 * s + k_bytes)
}

pub fn c17(ctx: &mut Ctx) {
    let scenario = "c17.work";
    let n_toy = if ctx.is_quick() { 6 } else { 60 };
    let bases = collect_bases(ctx, scenario, n_toy, 0);
    let mut unit: u64 = 0;
    let mut max_ratio_ticks = 0f64;
    let mut max_ratio_bytes = 0f64;
    for (bi, base) in bases.iter().enumerate() {
        let mut rng = Rng::derive(ctx.seed, scenario, bi as u64);
        let mut work: Vec<(String, Vec<Fault>)> = numeric_faults(&base.image, true);
        if ctx.is_quick() && work.len() > 900 {
            // keep everything that touches a size / ratio / count (the loop- and allocation-bound
            // candidates), sample the rest
            let (keep, mut rest): (Vec<_>, Vec<_>) = work.into_iter().partition(|(_, fl)| {
                fl.first().map(|f| { let p = f.path(); p.contains("row_ratio") || p.contains("n_columns") || p.contains("n_queries") || p.contains("n_layers") || p.contains("log_") || p.contains("step") }).unwrap_or(false)
            });
            rng.shuffle(&mut rest);
            rest.truncate(900usize.saturating_sub(keep.len()).max(200));
            work = keep;
            work.extend(rest);
        }
        work.extend(byzantine_fri_redeclarations(&base.image));
        work.extend(byzantine_trace_lengths(&base.image));
        // unused surplus entries with hostile values (not validated, not in the transcript)
        for (nm, v) in extreme_felts() {
            if ["5", "17", "30", "63", "2^16", "2^22", "2^26", "2^40", "2^64", "p-1"].contains(&nm) {
                work.push((format!("surplus:{nm}"), vec![Fault::Append { path: "config.fri.fri_step_sizes".into(), value: Some(image::felt_hex(&v)) }]));
            }
        }
        for v in [20u64, 24] {
            work.push((format!("surplus:{v}"), vec![Fault::Append { path: "config.fri.fri_step_sizes".into(), value: Some(image::felt_hex(&Felt::from(v))) }]));
        }
        // control: vector-length inflation (more data => more work, must stay in budget)
        for (p, len) in image::vectors(&base.image) {
            if len > 0 && len < 4096 {
                let path = image::path_str(&p);
                let mut fl = Vec::new();
                for _ in 0..(len.min(64)) {
                    fl.push(Fault::Append { path: path.clone(), value: None });
                }
                work.push(("inflate".into(), fl));
            }
        }
        let mine: Vec<_> = work
            .into_iter()
            .filter(|_| {
                let m = ctx.mine(unit);
                unit += 1;
                m
            })
            .collect();
        if mine.is_empty() {
            continue;
        }
        let t_base = std::time::Instant::now();
        let Some((ht, hb)) = check_base_accepts(ctx, base) else { continue };
        // wall-clock backstop for loops the work meter does not see: 50x the honest run, at least 5 s
        let slow_limit = (t_base.elapsed() * 50).max(std::time::Duration::from_secs(5));
        let s0 = proofrun::scalar_count(&base.image);
        let (bt, bb) = c17_budget(s0, &base.layout);
        // calibration self-check: honest runs must sit well inside the budget
        max_ratio_ticks = max_ratio_ticks.max(ht as f64 / bt as f64);
        max_ratio_bytes = max_ratio_bytes.max(hb as f64 / bb as f64);
        // On the pinned tree every honest run stays below a quarter of its budget (evidence:
        // max_honest_*_over_budget). A tree on which an honest run needs more is not a harness
        // fault: it is counted, and beyond the whole budget it is the violation itself.
        if ht * 4 > bt || hb * 4 > bb {
            ctx.stats.probe("honest-run-above-a-quarter-of-its-budget");
        }
        if ht > bt || hb > bb {
            let class = format!("C17|overwork|honest-run|{}", if ht > bt { "ticks" } else { "bytes" });
            let replay = replay_envelope("C17", scenario, &ctx.variant, replay_body(base, &[], "overwork", &Outcome::Accept(String::new()), json!({"budget_ticks": bt, "budget_bytes": bb, "ticks": ht, "bytes": hb, "proof_scalars": s0})));
            ctx.violation(&class, &format!("the unfaulted honest run of {} exceeds the linear budget: ticks {ht} / {bt}, bytes {hb} / {bb}, s={s0}", base.name), replay);
        }
        for (kind, faults) in mine {
            ctx.begin_run(scenario, unit);
            let Some(img) = proofrun::apply_faults(&base.image, &faults) else {
                ctx.stats.skip("fault-noop");
                continue;
            };
            let s = proofrun::scalar_count(&img);
            let (bt, bb) = c17_budget(s, &base.layout);
            let t_run = std::time::Instant::now();
            let Some(run) = proofrun::run_image(&base.layout, &img, base.security, bt) else {
                ctx.stats.skip("illtyped");
                continue;
            };
            let took = t_run.elapsed();
            ctx.stats.evaluations += 1;
            if took > slow_limit {
                let fclass = faults.first().map(|f| f.class()).unwrap_or_default();
                let class = format!("C17|slow|{fclass}");
                let replay = replay_envelope("C17", scenario, &ctx.variant, replay_body(base, &faults, "slow", &run.outcome, json!({"took_ms": took.as_millis() as u64, "limit_ms": slow_limit.as_millis() as u64, "ticks": run.ticks})));
                ctx.violation(&class, &format!("run took {} ms (honest run x50 / 5 s limit: {} ms) with only {} ticks: a loop the work meter does not see; base {} via {:?}", took.as_millis(), slow_limit.as_millis(), run.ticks, base.name, faults.first()), replay);
            }
            for f in faults.iter().take(1) {
                ctx.stats.fired(if kind == "inflate" { "inflate" } else { f.kind() });
            }
            ctx.stats.ticks_total += run.ticks;
            ctx.stats.outcome(match &run.outcome {
                Outcome::Accept(_) => "ACCEPT",
                Outcome::Reject { .. } => "REJECT",
                Outcome::Panic { .. } => "PANIC",
                Outcome::Overwork { .. } => "OVERWORK",
            });
            let fclass = faults.first().map(|f| f.class()).unwrap_or_default();
            ctx.stats.state(format!("{}|{}|{}|{}", base.layout, kind, fclass, run.outcome.class()));
            if ctx.stats.samples.len() < 4 {
                ctx.stats.sample(json!({"base": base.name, "kind": kind, "first_fault": faults.first(), "ticks": run.ticks, "budget_ticks": bt, "bytes": run.bytes, "outcome": run.outcome.class()}));
            }
            let over = match &run.outcome {
                Outcome::Overwork { site, .. } => Some(format!("ticks@{site}")),
                _ if run.bytes > bb => Some("bytes".to_string()),
                _ => None,
            };
            if let Some(what) = over {
                let class = format!("C17|overwork|{}|{}", what, fclass);
                let min = minimise(&faults, &mut |fl| {
                    proofrun::apply_faults(&base.image, fl)
                        .and_then(|im| {
                            let s = proofrun::scalar_count(&im);
                            let (bt, bb) = c17_budget(s, &base.layout);
                            proofrun::run_image(&base.layout, &im, base.security, bt).map(|r| matches!(r.outcome, Outcome::Overwork { .. }) || r.bytes > bb)
                        })
                        .unwrap_or(false)
                });
                let replay = replay_envelope("C17", scenario, &ctx.variant, replay_body(base, &min, "overwork", &run.outcome, json!({"budget_ticks": bt, "budget_bytes": bb, "ticks": run.ticks, "bytes": run.bytes, "proof_scalars": s})));
                ctx.violation(&class, &format!("work exceeds linear budget ({what}): ticks {} / {bt}, bytes {} / {bb}, s={s}, base {} via {:?}", run.ticks, run.bytes, base.name, min), replay);
            }
        }
    }
    byzantine_shapes(ctx, "C17");
    ctx.stats.extra.insert("max_honest_ticks_over_budget".into(), json!(max_ratio_ticks));
    ctx.stats.extra.insert("max_honest_bytes_over_budget".into(), json!(max_ratio_bytes));
}

/// Complete, self-consistent ToyLayout proofs under configurations that violate one declared bound
/// (the prover re-grinds the proof of work for the out-of-bounds shape, which a fault on a
/// recorded proof cannot): they must end in an error, within the work budget, without a panic.
fn byzantine_shapes(ctx: &mut Ctx, property: &str) {
    use crate::toyprover::{self, Cheat, ToyParams};
    let scenario = if property == "C17" { "c17.byzantine-shape" } else { "c18.byzantine-shape" };
    let mut kinds: Vec<&str> = toyprover::BAD_SHAPES_QUICK.to_vec();
    if !ctx.is_quick() {
        kinds.extend(toyprover::BAD_SHAPES_THOROUGH);
    }
    let reps = if ctx.is_quick() { 2 } else { 12 };
    let mut unit = 3_000_000u64;
    for kind in kinds {
        for r in 0..reps {
            let mine = ctx.mine(unit);
            unit += 1;
            if !mine {
                continue;
            }
            ctx.begin_run(scenario, unit);
            let mut rng = Rng::derive(ctx.seed, scenario, unit * 31 + r);
            let params = ToyParams::draw(&mut rng, true);
            let cheat = Cheat::BadShape { kind: kind.to_string() };
            let art = match toyprover::prove(&params, &cheat) {
                Ok(a) => a,
                Err(e) => ctx.harness_error(&format!("byzantine shape prover failed: {e} kind={kind} params={params:?}")),
            };
            let image = serde_json::to_value(&art.proof).unwrap();
            let s = proofrun::scalar_count(&image);
            let (bt, bb) = c17_budget(s, "toy");
            let run = proofrun::run_proof("toy", &art.proof, art.security, if property == "C17" { bt } else { bt * 4 });
            ctx.stats.evaluations += 1;
            ctx.stats.fired(&format!("byzantine-shape:{kind}"));
            ctx.stats.state(format!("toy|byzantine-shape|{kind}|{}", run.outcome.class()));
            let spec = json!({"kind": "toy", "params": params, "cheat": cheat});
            let base = Base { name: format!("toy-byzantine:{kind}"), layout: "toy".into(), image, security: art.security, spec };
            match (&run.outcome, property) {
                (Outcome::Panic { loc, .. }, "C18") => {
                    let class = format!("C18|panic|{}", crate::monitor::short_loc(loc));
                    let rep = replay_envelope("C18", scenario, &ctx.variant, replay_body(&base, &[], "panic", &run.outcome, json!({"shape": kind})));
                    ctx.violation(&class, &format!("{} for a self-consistent proof under out-of-bounds shape {kind}", run.outcome.describe()), rep);
                }
                (o, "C17") if matches!(o, Outcome::Overwork { .. }) || run.bytes > bb => {
                    let what = if let Outcome::Overwork { site, .. } = o { format!("ticks@{site}") } else { "bytes".into() };
                    let class = format!("C17|overwork|{what}|byzantine-shape:{kind}");
                    let rep = replay_envelope("C17", scenario, &ctx.variant, replay_body(&base, &[], "overwork", &run.outcome, json!({"shape": kind, "ticks": run.ticks, "budget_ticks": bt, "bytes": run.bytes, "budget_bytes": bb})));
                    ctx.violation(&class, &format!("work exceeds the linear budget for out-of-bounds shape {kind}: ticks {} / {bt}, bytes {} / {bb}", run.ticks, run.bytes), rep);
                }
                _ => {}
            }
        }
    }
}

// ------------------------------------------------------------------------------------------
// replay
// ------------------------------------------------------------------------------------------

pub fn replay(rep: &Value) -> Result<(bool, String), String> {
    let base = proofrun::base_from_spec(&rep["base"])?;
    let faults: Vec<Fault> = serde_json::from_value(rep["faults"].clone()).map_err(|e| e.to_string())?;
    let property = rep["property"].as_str().unwrap_or("");
    if let Some(ep) = rep.get("entry").and_then(|e| e.as_str()) {
        let img = proofrun::apply_faults(&base.image, &faults).ok_or("faults do not apply")?;
        let proof = serde_json::from_value(img).map_err(|e| e.to_string())?;
        let run = crate::entry::run_entry(ep, &base.layout, &proof, base.security);
        return Ok((run.outcome.is_panic(), run.outcome.describe()));
    }
    let limit = match property {
        "C17" => {
            let img = proofrun::apply_faults(&base.image, &faults).ok_or("faults do not apply")?;
            c17_budget(proofrun::scalar_count(&img), &base.layout).0
        }
        "C18" => c17_budget(proofrun::scalar_count(&base.image), &base.layout).0 * 4,
        _ => u64::MAX,
    };
    let m = if faults.is_empty() {
        let run = proofrun::run_image(&base.layout, &base.image, base.security, limit).ok_or("ill-typed")?;
        Mutant { image: base.image.clone(), run }
    } else {
        run_faults(&base, &faults, limit).ok_or("faults do not apply / ill-typed")?
    };
    let violated = match rep["oracle"].as_str() {
        Some("mutant-accepted") | Some("forgery-accepted") => m.run.outcome.is_accept(),
        Some("panic") => m.run.outcome.is_panic(),
        Some("overwork") => {
            let s = proofrun::scalar_count(&m.image);
            matches!(m.run.outcome, Outcome::Overwork { .. }) || m.run.bytes > c17_budget(s, &base.layout).1
        }
        Some("honest-rejected") => !m.run.outcome.is_accept(),
        Some("slow") => {
            // wall-clock finding: reproduced if the run again takes longer than the recorded limit
            let t = std::time::Instant::now();
            let _ = run_faults(&base, &faults, limit);
            t.elapsed().as_millis() as u64 > rep["extra"]["limit_ms"].as_u64().unwrap_or(5000)
        }
        o => return Err(format!("unknown oracle {o:?}")),
    };
    Ok((violated, m.run.outcome.describe()))
}
