//! swsim — protocol simulator with position-indexed fault injection for swiftness.
//! See /verif/DESIGN.md. One process = one worker; the `check` driver shards run indices.
#![allow(dead_code)]
mod alloc_meter;
mod common;
mod image;
mod models;
mod monitor;
mod rng;
mod scen_core;
#[cfg(feature = "full")]
mod entry;
#[cfg(feature = "full")]
mod forger;
#[cfg(feature = "full")]
mod models_full;
#[cfg(feature = "full")]
mod proofrun;
#[cfg(feature = "full")]
mod scen_c01;
#[cfg(feature = "full")]
mod scen_c19;
#[cfg(feature = "full")]
mod scen_full;
#[cfg(feature = "full")]
mod scen_full2;
#[cfg(feature = "full")]
mod scen_proof;
#[cfg(feature = "full")]
mod stone_loader;
#[cfg(feature = "full")]
mod toy;
#[cfg(feature = "full")]
mod toyprover;

#[global_allocator]
static ALLOC: alloc_meter::Counting = alloc_meter::Counting;

use common::{Ctx, Stats, Tier};

fn variant_name() -> String {
    let h = if cfg!(feature = "keccak_160_lsb") {
        "keccak_160_lsb"
    } else if cfg!(feature = "keccak_248_lsb") {
        "keccak_248_lsb"
    } else if cfg!(feature = "blake2s_160_lsb") {
        "blake2s_160_lsb"
    } else {
        "blake2s_248_lsb"
    };
    if cfg!(feature = "full") {
        format!("full-{}-{}", h, if cfg!(feature = "stone6") { "stone6" } else { "stone5" })
    } else {
        format!("core-{h}")
    }
}

fn usage() -> ! {
    eprintln!("usage: swsim run <PROPERTY> --tier quick|thorough --seed N --worker i/n [--max-units M]\n       swsim replay <file>\n       swsim selftest-models");
    std::process::exit(2);
}

fn main() {
    monitor::install_panic_hook();
    let args: Vec<String> = std::env::args().collect();
    if args.len() < 2 {
        usage();
    }
    match args[1].as_str() {
        "run" => {
            if args.len() < 3 {
                usage();
            }
            let property = args[2].clone();
            let mut tier = Tier::Quick;
            let mut seed: u64 = 20261002;
            let (mut worker, mut n_workers) = (0u64, 1u64);
            let mut max_units = None;
            let mut i = 3;
            while i < args.len() {
                match args[i].as_str() {
                    "--tier" => {
                        tier = if args[i + 1] == "thorough" { Tier::Thorough } else { Tier::Quick };
                        i += 1;
                    }
                    "--seed" => {
                        seed = args[i + 1].parse().expect("seed");
                        i += 1;
                    }
                    "--worker" => {
                        let mut it = args[i + 1].split('/');
                        worker = it.next().unwrap().parse().expect("worker");
                        n_workers = it.next().unwrap().parse().expect("n_workers");
                        i += 1;
                    }
                    "--max-units" => {
                        max_units = Some(args[i + 1].parse().expect("max-units"));
                        i += 1;
                    }
                    _ => usage(),
                }
                i += 1;
            }
            let mut ctx = Ctx {
                property: property.clone(),
                seed,
                tier,
                worker,
                n_workers,
                variant: variant_name(),
                max_units,
                stats: Stats::default(),
                violation_classes: Default::default(),
                start: std::time::Instant::now(),
            };
            common::watchdog_start(std::env::var("VERIF_RUN_WATCHDOG_S").ok().and_then(|v| v.parse().ok()).unwrap_or(150));
            let r = std::panic::catch_unwind(std::panic::AssertUnwindSafe(|| dispatch(&mut ctx)));
            if r.is_err() {
                let (loc, msg) = monitor::last_panic().unwrap_or(("<unknown>".into(), "<unknown>".into()));
                ctx.harness_error(&format!("harness panic at {loc}: {msg}"));
            }
            ctx.finish();
        }
        "replay" => {
            if args.len() < 3 {
                usage();
            }
            let text = std::fs::read_to_string(&args[2]).unwrap_or_else(|e| {
                eprintln!("cannot read {}: {e}", args[2]);
                std::process::exit(2)
            });
            let rep: serde_json::Value = serde_json::from_str(&text).unwrap_or_else(|e| {
                eprintln!("bad replay file: {e}");
                std::process::exit(2)
            });
            if let Some(v) = rep["variant"].as_str() {
                if v != variant_name() {
                    eprintln!("replay is for variant {v}, this binary is {}", variant_name());
                    std::process::exit(2);
                }
            }
            match replay(&rep) {
                Ok((violated, outcome)) => {
                    let same = rep["expected_outcome"].as_str().map(|e| e == outcome);
                    println!("REPLAY violated={violated} same_outcome={} outcome={outcome}", same.map(|b| b.to_string()).unwrap_or("n/a".into()));
                    std::process::exit(if violated { 1 } else { 0 });
                }
                Err(e) => {
                    eprintln!("replay error: {e}");
                    std::process::exit(2);
                }
            }
        }
        "grind-pow" => {
            // swsim grind-pow <n_bits> <digest-hex> [threads]: prints one JSON line for pow_solutions.json
            let n_bits: u8 = args.get(2).and_then(|s| s.parse().ok()).unwrap_or_else(|| usage());
            let digest = starknet_crypto::Felt::from_hex(args.get(3).map(|s| s.as_str()).unwrap_or("0x1")).unwrap_or_else(|_| usage());
            let threads: u64 = args.get(4).and_then(|s| s.parse().ok()).unwrap_or(16);
            let t0 = std::time::Instant::now();
            let nonce = models::pow_grind_parallel(&digest.to_bytes_be(), n_bits, threads);
            assert!(models::pow_valid(&digest.to_bytes_be(), n_bits, nonce));
            println!("{{\"hash\": \"{}\", \"digest\": \"{:#x}\", \"n_bits\": {n_bits}, \"nonce\": {nonce}, \"grind_seconds\": {}}}", models::pow_hash_kind(), digest, t0.elapsed().as_secs());
        }
        "selftest-models" => {
            let mut ctx = Ctx {
                property: "SELFTEST".into(),
                seed: 1,
                tier: Tier::Quick,
                worker: 0,
                n_workers: 1,
                variant: variant_name(),
                max_units: None,
                stats: Stats::default(),
                violation_classes: Default::default(),
                start: std::time::Instant::now(),
            };
            scen_core::selftest_models(&mut ctx);
            #[cfg(feature = "full")]
            scen_proof_selftest(&mut ctx);
            ctx.finish();
        }
        _ => usage(),
    }
}

#[cfg(feature = "full")]
fn scen_proof_selftest(_ctx: &mut Ctx) {}

fn dispatch(ctx: &mut Ctx) {
    let p = ctx.property.clone();
    match p.as_str() {
        "C04" => {
            scen_core::c04(ctx);
            scen_core::c04_tall(ctx);
        }
        "C05" => {
            scen_core::c05(ctx);
            scen_core::c05_tall(ctx);
        }
        "C06" => {
            scen_core::c06(ctx);
            scen_core::c06_big(ctx);
        }
        "C07" => {
            scen_core::c07(ctx);
            scen_core::c07_big(ctx);
        }
        #[cfg(not(feature = "full"))]
        "C09" | "C09core" => scen_core::c09(ctx),
        #[cfg(not(feature = "full"))]
        "C08" | "C08core" => scen_core::c08(ctx),
        #[cfg(feature = "full")]
        "C09core" => scen_core::c09(ctx),
        #[cfg(feature = "full")]
        "C08core" => scen_core::c08(ctx),
        #[cfg(feature = "full")]
        "C08" => scen_full2::c08(ctx),
        #[cfg(feature = "full")]
        "C09" => scen_full2::c09(ctx),
        #[cfg(feature = "full")]
        "C19" => scen_c19::c19(ctx),
        #[cfg(feature = "full")]
        "C01" => scen_c01::c01(ctx),
        #[cfg(feature = "full")]
        "C10" => scen_full2::c10(ctx),
        #[cfg(feature = "full")]
        "C11" => scen_full2::c11(ctx),
        #[cfg(feature = "full")]
        "C02" => scen_proof::c02(ctx),
        #[cfg(feature = "full")]
        "C17" => scen_proof::c17(ctx),
        #[cfg(feature = "full")]
        "C18" => scen_proof::c18(ctx),
        #[cfg(feature = "full")]
        "C03" => scen_full::c03(ctx),
        #[cfg(feature = "full")]
        "C13" => scen_full::c13(ctx),
        #[cfg(feature = "full")]
        "C14" => scen_full::c14(ctx),
        _ => {
            eprintln!("property {p} is not served by this binary ({})", variant_name());
            std::process::exit(2);
        }
    }
}

fn replay(rep: &serde_json::Value) -> Result<(bool, String), String> {
    let scenario = rep["scenario"].as_str().unwrap_or("");
    if scenario.starts_with("core.") {
        return scen_core::replay(rep);
    }
    #[cfg(feature = "full")]
    {
        if scenario == "c01.oods-binding" && rep["call"].as_str() == Some("free-product-page") {
            return scen_c01::replay_free_product_page(rep);
        }
        if scenario == "c01.oods-binding" {
            return scen_c01::replay_oods_binding(rep);
        }
        if scenario == "c01.public-memory" {
            return scen_c01::replay_public_memory(rep);
        }
        if scenario.starts_with("c02.") || scenario.starts_with("c17.") || scenario.starts_with("c18.") || scenario.starts_with("c03.") || scenario.starts_with("c01.") {
            return scen_proof::replay(rep);
        }
        if scenario.starts_with("c19.") {
            return scen_c19::replay(rep);
        }
        if scenario.starts_with("c13.") || scenario.starts_with("c14.") {
            return scen_full::replay(rep);
        }
        if scenario.starts_with("c08.") || scenario.starts_with("c09.") || scenario.starts_with("c10.") || scenario.starts_with("c11.") {
            return scen_full2::replay(rep);
        }
    }
    Err(format!("unknown scenario {scenario}"))
}
