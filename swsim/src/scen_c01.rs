//! C01: Byzantine, adaptive provers against the real verifier. Every strategy is the complete
//! reference prover plus exactly one deviation, so each cheating run has an accepted twin (same
//! parameters, no deviation) and the ground truth (does the committed trace satisfy the AIR at
//! the out-of-domain point, are the declared parameters sound, ...) is known exactly.
use crate::common::{replay_envelope, Ctx};
use crate::proofrun;
use crate::rng::Rng;
use crate::toyprover::{self, Cheat, ToyParams};
use serde_json::json;

fn strategies(rng: &mut Rng, p: &ToyParams) -> Cheat {
    let row = rng.usize_below(1usize << p.log_trace);
    match rng.below(19) {
        16..=18 => Cheat::BadShape { kind: rng.pick(&toyprover::BAD_SHAPES_QUICK).to_string() },
        0 => Cheat::OodsEq { row },
        1 | 2 => Cheat::OodsLen { row },
        3 => Cheat::MerkleLie { row, table: 0 },
        4 => Cheat::MerkleLie { row, table: 1 },
        5 | 6 => Cheat::FriAdaptive { row },
        7 | 8 => Cheat::FriTrunc { row },
        9 => Cheat::FriLong { row },
        10 => Cheat::PowSkip,
        11 => Cheat::LowSec,
        12 => Cheat::NqZero { row },
        13 => Cheat::ColsSkew,
        14 => Cheat::NvfSkew,
        _ => Cheat::Splice,
    }
}

pub fn cheat_name(c: &Cheat) -> &'static str {
    match c {
        Cheat::None => "none",
        Cheat::OodsEq { .. } => "oods-eq",
        Cheat::OodsLen { .. } => "oods-len",
        Cheat::MerkleLie { table, .. } => if table % 2 == 0 { "merkle-comp" } else { "merkle-orig" },
        Cheat::FriAdaptive { .. } => "fri-adaptive",
        Cheat::FriSize { .. } => "fri-size",
        Cheat::FriTrunc { .. } => "fri-trunc",
        Cheat::FriLong { .. } => "fri-long",
        Cheat::PowSkip => "pow-skip",
        Cheat::LowSec => "low-sec",
        Cheat::NqZero { .. } => "nq-zero",
        Cheat::ColsSkew => "cols-skew",
        Cheat::NvfSkew => "nvf-skew",
        Cheat::Splice => "splice",
        Cheat::BlowupModP { .. } => "blowup-modp",
        Cheat::BadShape { .. } => "bad-shape",
    }
}

pub fn c01(ctx: &mut Ctx) {
    oods_binding(ctx);
    public_memory_argument(ctx);
    real_layout_forgeries(ctx);
    let scenario = "c01.byzantine";
    let n_runs: u64 = if ctx.is_quick() { 320 } else { 12_000 };
    for k in 0..n_runs {
        if !ctx.mine(k) {
            continue;
        }
        ctx.begin_run(scenario, k);
        let mut rng = Rng::derive(ctx.seed, scenario, k);
        let params = ToyParams::draw(&mut rng, ctx.is_quick());
        let cheat = strategies(&mut rng, &params);
        let name_owned = match &cheat {
            Cheat::BadShape { kind } => format!("bad-shape:{kind}"),
            c => cheat_name(c).to_string(),
        };
        let name = name_owned.as_str();
        // the accepted twin
        let twin = match toyprover::prove(&params, &Cheat::None) {
            Ok(a) => a,
            Err(e) => ctx.harness_error(&format!("toy prover self-check failed: {e} params={params:?}")),
        };
        let twin_run = proofrun::run_proof("toy", &twin.proof, twin.security, u64::MAX);
        ctx.stats.evaluations += 1;
        if !twin_run.outcome.is_accept() {
            ctx.stats.skip(&format!("honest-twin-not-accepted:{}", twin_run.outcome.class()));
            continue;
        }
        let art = match toyprover::prove(&params, &cheat) {
            Ok(a) => a,
            Err(e) => ctx.harness_error(&format!("byzantine prover failed: {e} params={params:?} cheat={cheat:?}")),
        };
        let run = proofrun::run_proof("toy", &art.proof, art.security, 50_000_000);
        ctx.stats.evaluations += 1;
        ctx.stats.fired(name);
        ctx.stats.ticks_total += run.ticks;
        ctx.stats.messages_delivered += 1;
        ctx.stats.state(format!("{name}|t{}b{}|{}", params.log_trace, params.log_blowup, run.outcome.class()));
        if ctx.stats.samples.len() < 5 {
            ctx.stats.sample(json!({"strategy": name, "params": params, "truth": art.truth, "outcome": run.outcome.class()}));
        }
        if !art.truth.should_be_rejected() {
            ctx.harness_error(&format!("strategy {name} produced a run whose ground truth says 'sound': {:?}", art.truth));
        }
        if art.truth.undetectable_by_queries {
            ctx.stats.probe("high-degree-undetectable-at-queried-points");
            continue;
        }
        if run.outcome.is_accept() {
            let rep = replay_envelope("C01", scenario, &ctx.variant, json!({
                "base": {"kind": "toy", "params": params, "cheat": cheat}, "layout": "toy", "faults": [],
                "oracle": "forgery-accepted", "expected_outcome": run.outcome.describe(), "extra": {"truth": art.truth}}));
            ctx.violation(&format!("C01|forgery-accepted|{name}"), &format!("strategy {name} accepted: params {params:?}, truth {:?}", art.truth), rep);
        }
    }
}

// ------------------------------------------------------------------------------------------
// OODS binding of the statement on the real layouts
// ------------------------------------------------------------------------------------------
//
// No prover exists for the 7 real layouts, so the Byzantine prover here is the weakest useful one:
// it takes a recorded honest run and changes the *statement* afterwards, keeping every prover
// message and every challenge of the recorded run (i.e. it assumes it could steer the transcript).
// The only thing left to stop it is the AIR itself: the out-of-domain check must fail when a field
// the AIR binds (initial/final pc, initial/final ap, each builtin's first address, range-check
// bounds, any public-memory cell, the padding cell) changes. Fields the AIR does not bind directly
// (builtin stop pointers, which are bound through the memory argument) are not checked.

use crate::image::{self, Fault};
use crate::monitor::{self, Outcome};
use crate::stone_loader;
use starknet_crypto::Felt;
use swiftness_air::domains::StarkDomains;
use swiftness_air::layout::LayoutTrait;
use swiftness_air::public_memory::PublicInput;
use swiftness_stark::types::StarkProof;
use swiftness_transcript::transcript::Transcript;

fn oods_with_statement<L: LayoutTrait>(proof: &StarkProof, statement: &PublicInput) -> Outcome {
    monitor::guarded(50_000_000, || {
        let domains = StarkDomains::new(proof.config.log_trace_domain_size, proof.config.log_n_cosets);
        // challenges of the recorded run (seeded by the ORIGINAL statement)
        let digest = proof.public_input.get_hash(proof.config.n_verifier_friendly_commitment_layers);
        let mut t = Transcript::new(digest);
        let traces = L::traces_commit(&mut t, &proof.unsent_commitment.traces, proof.config.traces.clone());
        let alpha = t.random_felt_to_prover();
        let mut coeffs = Vec::with_capacity(L::N_CONSTRAINTS);
        let mut c = Felt::ONE;
        for _ in 0..L::N_CONSTRAINTS {
            coeffs.push(c);
            c *= alpha;
        }
        t.read_felt_from_prover(&proof.unsent_commitment.composition);
        let z = t.random_felt_to_prover();
        swiftness_stark::oods::verify_oods::<L>(
            &proof.unsent_commitment.oods_values,
            &traces.interaction_elements,
            statement,
            &coeffs,
            &z,
            &domains.trace_domain_size,
            &domains.trace_generator,
        )
    })
    .outcome
}

pub fn oods_binding(ctx: &mut Ctx) {
    let scenario = "c01.oods-binding";
    let mut unit = 5_000_000u64;
    for path in stone_loader::shipped_proof_paths() {
        let l = match stone_loader::load_file(&path) {
            Ok(l) => l,
            Err(e) => ctx.harness_error(&format!("{path}: {e}")),
        };
        // the OODS check does not involve the commitment hash; the Stone version only changes the
        // seed, which is recomputed by this build for the original statement: every file is usable
        let proof: StarkProof = serde_json::from_value(l.proof.clone()).unwrap();
        let layout = l.layout.clone();
        let pi_img = l.proof["public_input"].clone();
        let short = path.trim_start_matches("/repo/examples/proofs/").to_string();
        let run = |pi: &PublicInput| -> Outcome { crate::with_layout!(layout.as_str(), oods_with_statement, &proof, pi) };
        // zero-fault: the recorded statement passes (only meaningful when this build computes the
        // same seed as the prover did, i.e. same Stone version)
        let same_stone = l.stone6 == (proofrun::variant_stone() == "stone6");
        if !same_stone {
            continue;
        }
        if ctx.mine(unit) {
            let o = run(&proof.public_input);
            ctx.stats.evaluations += 1;
            if !o.is_accept() {
                let rep = replay_envelope("C01", scenario, &ctx.variant, json!({"call": "oods-binding", "file": path, "faults": [], "expect": "ok"}));
                ctx.violation(&format!("C01|oods-binding|honest-rejected|{layout}"), &format!("{short}: the recorded statement fails the out-of-domain check: {}", o.describe()), rep);
            }
        }
        unit += 1;
        // bound fields
        let n_seg = pi_img["segments"].as_array().map(|a| a.len()).unwrap_or(0);
        let mut faults: Vec<(String, Fault)> = Vec::new();
        let plus1 = |p: &str| -> Option<Fault> {
            let v = image::felt_of(image::get(&pi_img, &image::parse_path(p))?)?;
            Some(Fault::Set { path: p.to_string(), value: image::felt_hex(&(v + Felt::ONE)) })
        };
        for (k, p) in [("initial-pc", "segments[0].begin_addr"), ("final-pc", "segments[0].stop_ptr"), ("initial-ap", "segments[1].begin_addr"), ("final-ap", "segments[1].stop_ptr"), ("rc-min", "range_check_min"), ("rc-max", "range_check_max"), ("padding-addr", "padding_addr"), ("padding-value", "padding_value")] {
            if let Some(f) = plus1(p) {
                faults.push((k.to_string(), f));
            }
        }
        for s in 2..n_seg {
            // segment 2 is the output: its first address is not an AIR global value
            if s == 2 {
                continue;
            }
            // dynamic layout: the constraints of a builtin the statement switches off
            // (uses_<name>_builtin = 0) are multiplied by that flag, so its first address is not
            // part of the constraint system at all (its segment is empty); nothing to bind.
            if layout == "dynamic" {
                const NAMES: [&str; 13] = ["", "", "", "pedersen", "range_check", "ecdsa", "bitwise", "ec_op", "keccak", "poseidon", "range_check96", "add_mod", "mul_mod"];
                let used = NAMES.get(s).map(|n| pi_img["dynamic_params"][format!("uses_{n}_builtin")].as_u64() != Some(0)).unwrap_or(true);
                if !used {
                    ctx.stats.probe("dynamic-switched-off-builtin-not-in-the-air");
                    continue;
                }
            }
            if let Some(f) = plus1(&format!("segments[{s}].begin_addr")) {
                faults.push((format!("builtin-begin:{s}"), f));
            }
        }
        let n_cells = pi_img["main_page"].as_array().map(|a| a.len()).unwrap_or(0);
        let mut rng = Rng::derive(ctx.seed, scenario, unit);
        for _ in 0..6 {
            let i = rng.usize_below(n_cells);
            if let Some(f) = plus1(&format!("main_page[{i}].value")) {
                faults.push(("memory-value".into(), f));
            }
            if let Some(f) = plus1(&format!("main_page[{i}].address")) {
                faults.push(("memory-address".into(), f));
            }
        }
        for (kind, f) in faults {
            let mine = ctx.mine(unit);
            unit += 1;
            if !mine {
                continue;
            }
            ctx.begin_run(scenario, unit);
            let Some(img) = proofrun::apply_faults(&pi_img, std::slice::from_ref(&f)) else { continue };
            let Ok(pi) = serde_json::from_value::<PublicInput>(img) else { continue };
            let o = run(&pi);
            ctx.stats.evaluations += 1;
            ctx.stats.fired(&format!("statement-after-proof:{}", kind.split(':').next().unwrap()));
            ctx.stats.state(format!("{layout}|oods-binding|{kind}|{}", o.class()));
            if o.is_accept() {
                let rep = replay_envelope("C01", scenario, &ctx.variant, json!({"call": "oods-binding", "file": path, "faults": [f], "expect": "not_ok"}));
                ctx.violation(&format!("C01|oods-binding|unbound|{layout}|{kind}"), &format!("{short}: with every prover message and challenge of the recorded run kept, changing {} of the statement still passes the out-of-domain check: the AIR does not bind it", f.path()), rep);
            }
        }
        let mine = ctx.mine(unit);
        unit += 1;
        if mine {
            ctx.begin_run(scenario, unit);
            free_product_pages(ctx, scenario, &path, &layout, &proof, &pi_img, &short);
        }
    }
}

// ------------------------------------------------------------------------------------------
// the public-memory argument's verifier side: the product every main-page cell enters
// ------------------------------------------------------------------------------------------
//
// The OODS binding above holds for the cells of the recorded pages. The quantity that carries it
// is `get_public_memory_product_ratio`; it is compared here with the protocol's formula
//   z^N / ( prod_cells (z - (addr + alpha*value)) * prod_pages page.prod * (z - pad)^(N - len) )
// on pages of every length 0..=70 (every residue modulo small block sizes), and each single cell
// change must change it.

fn ratio_of(pi_img: &serde_json::Value, z: Felt, alpha: Felt, column: u64) -> Option<Felt> {
    let pi: PublicInput = serde_json::from_value(pi_img.clone()).ok()?;
    let r = monitor::guarded_val(10_000_000, || pi.get_public_memory_product_ratio(z, alpha, Felt::from(column)));
    match r.outcome {
        // deterministic: recompute outside the guard for the typed value
        Outcome::Accept(_) => Some(pi.get_public_memory_product_ratio(z, alpha, Felt::from(column))),
        _ => None,
    }
}

pub fn public_memory_argument(ctx: &mut Ctx) {
    let scenario = "c01.public-memory";
    for p in ["page-length-multiple-of-4", "page-length-multiple-of-8", "page-empty", "with-continuous-pages"] {
        ctx.stats.declare_probe(p);
    }
    let paths = stone_loader::shipped_proof_paths();
    let template = match stone_loader::load_file(&paths[0]) {
        Ok(l) => l.proof["public_input"].clone(),
        Err(e) => ctx.harness_error(&format!("{}: {e}", paths[0])),
    };
    let n_runs: u64 = if ctx.is_quick() { 600 } else { 20_000 };
    for k in 0..n_runs {
        if !ctx.mine(9_000_000 + k) {
            continue;
        }
        ctx.begin_run(scenario, k);
        let mut rng = Rng::derive(ctx.seed, scenario, k);
        let n = if k < 72 { k as usize % 72 } else { rng.usize_below(71) };
        let cells: Vec<(Felt, Felt)> = (0..n).map(|i| (Felt::from(1 + i as u64 + rng.below(3) * 1000), rng.felt())).collect();
        let n_pages = if rng.chance(1, 3) { rng.range(1, 2) as usize } else { 0 };
        let pages: Vec<(u64, Felt)> = (0..n_pages).map(|_| (rng.range(1, 9), rng.felt_nonzero())).collect();
        let (z, alpha) = (rng.felt_nonzero(), rng.felt());
        let (pad_a, pad_v) = (Felt::from(rng.range(1, 50)), rng.felt());
        let total = n as u64 + pages.iter().map(|p| p.0).sum::<u64>();
        let column = total + rng.range(0, 8);
        let mut img = template.clone();
        img["main_page"] = json!(cells.iter().map(|(a, v)| json!({"address": image::felt_hex(a), "value": image::felt_hex(v)})).collect::<Vec<_>>());
        img["continuous_page_headers"] = json!(pages.iter().enumerate().map(|(i, (sz, prod))| json!({"start_address": image::felt_hex(&Felt::from(5000 + 100 * i as u64)), "size": image::felt_hex(&Felt::from(*sz)), "hash": image::felt_hex(&Felt::from(77u64)), "prod": image::felt_hex(prod)})).collect::<Vec<_>>());
        img["padding_addr"] = json!(image::felt_hex(&pad_a));
        img["padding_value"] = json!(image::felt_hex(&pad_v));
        if n % 4 == 0 && n > 0 {
            ctx.stats.probe("page-length-multiple-of-4");
        }
        if n % 8 == 0 && n > 0 {
            ctx.stats.probe("page-length-multiple-of-8");
        }
        if n == 0 {
            ctx.stats.probe("page-empty");
        }
        if n_pages > 0 {
            ctx.stats.probe("with-continuous-pages");
        }
        let model = {
            let mut prod = Felt::ONE;
            for (a, v) in &cells {
                prod *= z - (*a + alpha * *v);
            }
            for (_, p) in &pages {
                prod *= *p;
            }
            let pad = z - (pad_a + alpha * pad_v);
            let denom = prod * pad.pow((column - total) as u128);
            if denom == Felt::ZERO {
                continue;
            }
            z.pow(column as u128) * crate::models::inv(denom)
        };
        let variant = ctx.variant.clone();
        let spec = |faults: &[Fault]| replay_envelope("C01", scenario, &variant, json!({"call": "public-memory", "public_input": img, "z": image::felt_hex(&z), "alpha": image::felt_hex(&alpha), "column": column, "model": image::felt_hex(&model), "faults": faults}));
        let got = ratio_of(&img, z, alpha, column);
        ctx.stats.evaluations += 1;
        ctx.stats.state(format!("public-memory|len%8={}|pages{}|{}", n % 8, n_pages, got == Some(model)));
        if got != Some(model) {
            ctx.violation("C01|public-memory|model-mismatch", &format!("public-memory product ratio of a {n}-cell main page with {n_pages} continuous page(s) differs from the protocol formula"), spec(&[]));
            continue;
        }
        let idx: Vec<usize> = if n <= 16 { (0..n).collect() } else { let mut v = vec![0, n - 1, n - 2, n - 3, n - 4]; v.extend((0..6).map(|_| rng.usize_below(n))); v };
        for i in idx {
            for field in ["address", "value"] {
                let path = format!("main_page[{i}].{field}");
                let old = image::felt_of(&img["main_page"][i][field]).unwrap();
                let f = Fault::Set { path: path.clone(), value: image::felt_hex(&(old + Felt::ONE)) };
                let Some(img2) = proofrun::apply_faults(&img, std::slice::from_ref(&f)) else { continue };
                let got2 = ratio_of(&img2, z, alpha, column);
                ctx.stats.evaluations += 1;
                ctx.stats.fired("statement-after-proof:memory-cell-product");
                if got2 == got && alpha != Felt::ZERO {
                    ctx.violation("C01|public-memory|cell-unbound", &format!("changing {path} of a {n}-cell main page leaves the public-memory product ratio unchanged"), spec(&[f]));
                }
            }
        }
    }
}

pub fn replay_public_memory(rep: &serde_json::Value) -> Result<(bool, String), String> {
    let f = |k: &str| image::felt_of(&rep[k]).ok_or(format!("{k}"));
    let (z, alpha, model) = (f("z")?, f("alpha")?, f("model")?);
    let column = rep["column"].as_u64().ok_or("column")?;
    let img = rep["public_input"].clone();
    let faults: Vec<Fault> = serde_json::from_value(rep["faults"].clone()).map_err(|e| e.to_string())?;
    let base = ratio_of(&img, z, alpha, column);
    if faults.is_empty() {
        return Ok((base != Some(model), format!("{base:?}")));
    }
    let img2 = proofrun::apply_faults(&img, &faults).ok_or("faults do not apply")?;
    let got2 = ratio_of(&img2, z, alpha, column);
    Ok((got2 == base, format!("{got2:?}")))
}

/// (z, alpha) of the memory argument as the verifier derives them for the recorded run.
fn memory_challenges<L: LayoutTrait>(proof: &StarkProof) -> Option<(Felt, Felt)>
where
    L::InteractionElements: serde::Serialize,
{
    let r = std::panic::catch_unwind(std::panic::AssertUnwindSafe(|| {
        let digest = proof.public_input.get_hash(proof.config.n_verifier_friendly_commitment_layers);
        let mut t = Transcript::new(digest);
        let traces = L::traces_commit(&mut t, &proof.unsent_commitment.traces, proof.config.traces.clone());
        serde_json::to_value(&traces.interaction_elements).ok()
    }));
    let v = r.ok().flatten()?;
    Some((image::felt_of(&v["memory_multi_column_perm_perm_interaction_elm"])?, image::felt_of(&v["memory_multi_column_perm_hash_interaction_elm0"])?))
}

fn verify_pi_alone<L: LayoutTrait>(pi: &PublicInput) -> Outcome {
    monitor::guarded(50_000_000, || L::verify_public_input(pi)).outcome
}

/// A continuous page carries a product the verifier cannot recompute and the digest does not
/// cover: with it a prover can cancel any change of the main page after the memory challenges
/// are known. The statement-level guard (`verify_public_input`) therefore has to refuse every
/// statement with such a page, also an empty one.
fn free_product_pages(ctx: &mut Ctx, scenario: &str, path: &str, layout: &str, proof: &StarkProof, pi_img: &serde_json::Value, short: &str) {
    let Some((z, alpha)) = crate::with_layout!(layout, memory_challenges, proof) else { return };
    let n_cells = pi_img["main_page"].as_array().map(|a| a.len()).unwrap_or(0);
    if n_cells == 0 {
        return;
    }
    let i = n_cells - 1; // an output cell (the last cell of the page)
    let (Some(a), Some(v)) = (image::felt_of(&pi_img["main_page"][i]["address"]), image::felt_of(&pi_img["main_page"][i]["value"])) else { return };
    let (f_old, f_new) = (z - (a + alpha * v), z - (a + alpha * (v + Felt::ONE)));
    if f_old == Felt::ZERO || f_new == Felt::ZERO {
        return;
    }
    for size in [0u64, 1] {
        // the page's own cells would add `size` to the length: the padding power changes by the
        // same count, which the prover compensates in `prod` as well
        let pad = z - (image::felt_of(&pi_img["padding_addr"]).unwrap_or(Felt::ZERO) + alpha * image::felt_of(&pi_img["padding_value"]).unwrap_or(Felt::ZERO));
        let prod = f_old * crate::models::inv(f_new) * pad.pow(size as u128);
        let faults = vec![
            Fault::Set { path: format!("main_page[{i}].value"), value: image::felt_hex(&(v + Felt::ONE)) },
        ];
        let Some(mut img) = proofrun::apply_faults(pi_img, &faults) else { continue };
        img["continuous_page_headers"] = json!([{"start_address": image::felt_hex(&Felt::from(1u64 << 40)), "size": image::felt_hex(&Felt::from(size)), "hash": "0x0", "prod": image::felt_hex(&prod)}]);
        let Ok(pi) = serde_json::from_value::<PublicInput>(img.clone()) else { continue };
        let o = crate::with_layout!(layout, oods_with_statement, proof, &pi);
        ctx.stats.evaluations += 1;
        if !o.is_accept() {
            ctx.stats.probe("free-product-page:compensation-did-not-pass-oods");
            continue;
        }
        ctx.stats.probe("free-product-page:passes-oods");
        let g = crate::with_layout!(layout, verify_pi_alone, &pi);
        ctx.stats.evaluations += 1;
        ctx.stats.fired("statement-after-proof:free-product-page");
        ctx.stats.state(format!("{layout}|oods-binding|free-product-page:{size}|{}", g.class()));
        if !g.is_reject() {
            let rep = replay_envelope("C01", scenario, &ctx.variant, json!({"call": "free-product-page", "file": path, "statement": img, "expect": "reject"}));
            ctx.violation(&format!("C01|oods-binding|free-product-page|{layout}"), &format!("{short}: a statement whose last output cell is changed and cancelled by a continuous page of size {size} with a chosen product passes the out-of-domain check, and verify_public_input answers {}", g.describe()), rep);
        }
    }
}

pub fn replay_free_product_page(rep: &serde_json::Value) -> Result<(bool, String), String> {
    let l = stone_loader::load_file(rep["file"].as_str().ok_or("file")?)?;
    let proof: StarkProof = serde_json::from_value(l.proof.clone()).map_err(|e| e.to_string())?;
    let pi: PublicInput = serde_json::from_value(rep["statement"].clone()).map_err(|e| e.to_string())?;
    let layout = l.layout.clone();
    let o: Outcome = crate::with_layout!(layout.as_str(), oods_with_statement, &proof, &pi);
    let g: Outcome = crate::with_layout!(layout.as_str(), verify_pi_alone, &pi);
    Ok((o.is_accept() && !g.is_reject(), format!("oods {} / verify_public_input {}", o.class(), g.describe())))
}

pub fn replay_oods_binding(rep: &serde_json::Value) -> Result<(bool, String), String> {
    let l = stone_loader::load_file(rep["file"].as_str().ok_or("file")?)?;
    let proof: StarkProof = serde_json::from_value(l.proof.clone()).map_err(|e| e.to_string())?;
    let faults: Vec<Fault> = serde_json::from_value(rep["faults"].clone()).map_err(|e| e.to_string())?;
    let pi_img = l.proof["public_input"].clone();
    let img = if faults.is_empty() { pi_img } else { proofrun::apply_faults(&pi_img, &faults).ok_or("faults do not apply")? };
    let pi: PublicInput = serde_json::from_value(img).map_err(|e| e.to_string())?;
    let layout = l.layout.clone();
    let o: Outcome = crate::with_layout!(layout.as_str(), oods_with_statement, &proof, &pi);
    let violated = if rep["expect"].as_str() == Some("ok") { !o.is_accept() } else { o.is_accept() };
    Ok((violated, o.describe()))
}

// ------------------------------------------------------------------------------------------
// constant-column forger on the 7 real layouts
// ------------------------------------------------------------------------------------------

use crate::forger::{self, Seam};
use swiftness_air::layout::GenericLayoutTrait;

fn forge_and_run<L: LayoutTrait + GenericLayoutTrait>(layout: &str, pi: &PublicInput, seam: Seam, rng: &mut Rng) -> Result<(forger::Forgery, proofrun::ProofRun), String> {
    let f = forger::forge::<L>(pi, seam, rng)?;
    let run = proofrun::run_proof(layout, &f.proof, f.security, 200_000_000);
    Ok((f, run))
}

fn expected_stop(seam: Seam) -> &'static str {
    match seam {
        Seam::OodsEq => "REJECT(Commit(Oods(EvaluationInvalid)))",
        Seam::OodsLen => "REJECT(Commit(Oods(InvalidLength)))",
        Seam::MerkleComp => "REJECT(Verify(TableDecommitError(Vector(MisMatch))))",
        Seam::FriAdaptive => "REJECT(Verify(FriError(LayerDecommitmentError)))",
        Seam::PowSkip => "REJECT(Commit(POW(ProofOfWorkFail)))",
        Seam::LowSec => "REJECT(Validation(InsufficientSecurity))",
    }
}

pub fn real_layout_forgeries(ctx: &mut Ctx) {
    let scenario = "c01.forger";
    let mut unit = 7_000_000u64;
    let paths = stone_loader::shipped_proof_paths();
    let reps = if ctx.is_quick() { 1 } else { 6 };
    for (pi_idx, path) in paths.iter().enumerate() {
        // quick: one statement per layout is enough (the statement only feeds validation and V(z))
        if ctx.is_quick() && !path.contains("stone5") && !path.contains("dynamic") {
            continue;
        }
        let l = match stone_loader::load_file(path) {
            Ok(l) => l,
            Err(e) => ctx.harness_error(&format!("{path}: {e}")),
        };
        let pi: PublicInput = serde_json::from_value(l.proof["public_input"].clone()).unwrap();
        let layout = l.layout.clone();
        for seam in forger::SEAMS {
            for r in 0..reps {
                let mine = ctx.mine(unit);
                unit += 1;
                if !mine {
                    continue;
                }
                ctx.begin_run(scenario, unit);
                let forge_seed = ctx.seed ^ (pi_idx as u64) << 20 ^ (r as u64) << 8 ^ seam as u64;
                let mut rng = Rng::derive(forge_seed, scenario, 0);
                let res: Result<(forger::Forgery, proofrun::ProofRun), String> = crate::with_layout!(layout.as_str(), forge_and_run, layout.as_str(), &pi, seam, &mut rng);
                let (f, run) = match res {
                    Ok(x) => x,
                    Err(e) => ctx.harness_error(&format!("forger failed on {path} ({layout}, {seam:?}): {e}")),
                };
                ctx.stats.evaluations += 1;
                ctx.stats.fired(&format!("forger:{seam:?}"));
                ctx.stats.ticks_total += run.ticks;
                let oc = run.outcome.class();
                ctx.stats.state(format!("{layout}|forger|{seam:?}|{oc}"));
                if oc == expected_stop(seam) {
                    ctx.stats.probe(&format!("forger-stopped-only-by-intended-check:{seam:?}"));
                } else {
                    ctx.stats.probe(&format!("forger-stopped-elsewhere:{seam:?}:{oc}"));
                }
                if !f.air_violated_at_z {
                    ctx.stats.probe("forger-constant-trace-satisfies-air-at-z(by luck)");
                    continue;
                }
                if run.outcome.is_accept() {
                    let image = serde_json::to_value(&f.proof).unwrap();
                    let rep = replay_envelope("C01", scenario, &ctx.variant, json!({
                        "base": {"kind": "image", "layout": layout, "image": image}, "layout": layout, "faults": [],
                        "oracle": "forgery-accepted", "expected_outcome": run.outcome.describe(),
                        "extra": {"statement_of": path, "seam": format!("{seam:?}"), "forge_seed": forge_seed}}));
                    ctx.violation(&format!("C01|forgery-accepted|real-layout|{seam:?}"), &format!("constant-column forgery ({seam:?}) for the statement of {path} accepted under layout {layout}: the committed trace violates the AIR at z"), rep);
                }
                if ctx.stats.samples.len() < 6 {
                    ctx.stats.sample(json!({"layout": layout, "seam": format!("{seam:?}"), "outcome": oc}));
                }
            }
        }
    }
}
