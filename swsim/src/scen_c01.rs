//! C01: Byzantine, adaptive provers against the real verifier. Every strategy is the complete
//! reference prover plus exactly one deviation, so each cheating run has an accepted twin (same
//! parameters, no deviation) and the ground truth (does the committed trace satisfy the AIR at
//! the out-of-domain point, are the declared parameters sound, ...) is known exactly.
use crate::common::{replay_envelope, Ctx};
use crate::proofrun;
use crate::rng::Rng;
use crate::toyprover::{self, Cheat, ToyParams};
use serde_json::json;

fn strategies(rng: &mut Rng, p: &ToyParams) -> Cheat {
    let row = rng.usize_below(1usize << p.log_trace);
    match rng.below(19) {
        16..=18 => Cheat::BadShape { kind: rng.pick(&toyprover::BAD_SHAPES_QUICK).to_string() },
        0 => Cheat::OodsEq { row },
        1 | 2 => Cheat::OodsLen { row },
        3 => Cheat::MerkleLie { row, table: 0 },
        4 => Cheat::MerkleLie { row, table: 1 },
        5 | 6 => Cheat::FriAdaptive { row },
        7 | 8 => Cheat::FriTrunc { row },
        9 => Cheat::FriLong { row },
        10 => Cheat::PowSkip,
        11 => Cheat::LowSec,
        12 => Cheat::NqZero { row },
        13 => Cheat::ColsSkew,
        14 => Cheat::NvfSkew,
        _ => Cheat::Splice,
    }
}

pub fn cheat_name(c: &Cheat) -> &'static str {
    match c {
        Cheat::None => "none",
        Cheat::OodsEq { .. } => "oods-eq",
        Cheat::OodsLen { .. } => "oods-len",
        Cheat::MerkleLie { table, .. } => if table % 2 == 0 { "merkle-comp" } else { "merkle-orig" },
        Cheat::FriAdaptive { .. } => "fri-adaptive",
        Cheat::FriSize { .. } => "fri-size",
        Cheat::FriTrunc { .. } => "fri-trunc",
        Cheat::FriLong { .. } => "fri-long",
        Cheat::PowSkip => "pow-skip",
        Cheat::LowSec => "low-sec",
        Cheat::NqZero { .. } => "nq-zero",
        Cheat::ColsSkew => "cols-skew",
        Cheat::NvfSkew => "nvf-skew",
        Cheat::Splice => "splice",
        Cheat::BlowupModP { .. } => "blowup-modp",
        Cheat::BadShape { .. } => "bad-shape",
    }
}

pub fn c01(ctx: &mut Ctx) {
    let scenario = "c01.byzantine";
    let n_runs: u64 = if ctx.is_quick() { 320 } else { 12_000 };
    for k in 0..n_runs {
        if !ctx.mine(k) {
            continue;
        }
        ctx.begin_run(scenario, k);
        let mut rng = Rng::derive(ctx.seed, scenario, k);
        let params = ToyParams::draw(&mut rng, ctx.is_quick());
        let cheat = strategies(&mut rng, &params);
        let name_owned = match &cheat {
            Cheat::BadShape { kind } => format!("bad-shape:{kind}"),
            c => cheat_name(c).to_string(),
        };
        let name = name_owned.as_str();
        // the accepted twin
        let twin = match toyprover::prove(&params, &Cheat::None) {
            Ok(a) => a,
            Err(e) => ctx.harness_error(&format!("toy prover self-check failed: {e} params={params:?}")),
        };
        let twin_run = proofrun::run_proof("toy", &twin.proof, twin.security, u64::MAX);
        ctx.stats.evaluations += 1;
        if !twin_run.outcome.is_accept() {
            ctx.stats.skip(&format!("honest-twin-not-accepted:{}", twin_run.outcome.class()));
            continue;
        }
        let art = match toyprover::prove(&params, &cheat) {
            Ok(a) => a,
            Err(e) => ctx.harness_error(&format!("byzantine prover failed: {e} params={params:?} cheat={cheat:?}")),
        };
        let run = proofrun::run_proof("toy", &art.proof, art.security, 50_000_000);
        ctx.stats.evaluations += 1;
        ctx.stats.fired(name);
        ctx.stats.ticks_total += run.ticks;
        ctx.stats.messages_delivered += 1;
        ctx.stats.state(format!("{name}|t{}b{}|{}", params.log_trace, params.log_blowup, run.outcome.class()));
        if ctx.stats.samples.len() < 5 {
            ctx.stats.sample(json!({"strategy": name, "params": params, "truth": art.truth, "outcome": run.outcome.class()}));
        }
        if !art.truth.should_be_rejected() {
            ctx.harness_error(&format!("strategy {name} produced a run whose ground truth says 'sound': {:?}", art.truth));
        }
        if art.truth.undetectable_by_queries {
            ctx.stats.probe("high-degree-undetectable-at-queried-points");
            continue;
        }
        if run.outcome.is_accept() {
            let rep = replay_envelope("C01", scenario, &ctx.variant, json!({
                "base": {"kind": "toy", "params": params, "cheat": cheat}, "layout": "toy", "faults": [],
                "oracle": "forgery-accepted", "expected_outcome": run.outcome.describe(), "extra": {"truth": art.truth}}));
            ctx.violation(&format!("C01|forgery-accepted|{name}"), &format!("strategy {name} accepted: params {params:?}, truth {:?}", art.truth), rep);
        }
    }
}
