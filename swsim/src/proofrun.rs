//! Running the real verifier on a proof image: layout dispatch, tick/alloc metering, bases.
use crate::image::{self, Fault};
use crate::monitor::{self, Outcome};
use crate::stone_loader::{self, Loaded};
use serde_json::Value;
use starknet_crypto::Felt;
use swiftness_air::layout::{GenericLayoutTrait, LayoutTrait};
use swiftness_stark::types::StarkProof;

pub const LAYOUTS: [&str; 7] =
    ["dex", "dynamic", "recursive", "recursive_with_poseidon", "small", "starknet", "starknet_with_keccak"];

pub fn variant_hash() -> &'static str {
    if cfg!(feature = "keccak_160_lsb") {
        "keccak_160_lsb"
    } else if cfg!(feature = "keccak_248_lsb") {
        "keccak_248_lsb"
    } else if cfg!(feature = "blake2s_160_lsb") {
        "blake2s_160_lsb"
    } else {
        "blake2s_248_lsb"
    }
}
pub fn variant_stone() -> &'static str {
    if cfg!(feature = "stone6") {
        "stone6"
    } else {
        "stone5"
    }
}
pub fn variant_name() -> String {
    format!("{}-{}", variant_hash(), variant_stone())
}

/// Does this build's (commitment hash, pow hash, stone version) match what the file says?
pub fn build_matches(l: &Loaded) -> bool {
    let hash_ok = match l.commitment_hash.as_str() {
        "keccak256_masked160_lsb" => variant_hash() == "keccak_160_lsb",
        "keccak256_masked248_lsb" => variant_hash() == "keccak_248_lsb",
        "blake256_masked160_lsb" => variant_hash() == "blake2s_160_lsb",
        "blake256_masked248_lsb" => variant_hash() == "blake2s_248_lsb",
        _ => false,
    };
    hash_ok && (l.stone6 == (variant_stone() == "stone6"))
}

pub fn verify_generic<L: LayoutTrait + GenericLayoutTrait>(
    proof: &StarkProof,
    security: Felt,
) -> Result<(Felt, Felt), swiftness_stark::stark::Error> {
    proof.verify::<L>(security)
}

pub fn verify_layout(layout: &str, proof: &StarkProof, security: Felt) -> Result<(Felt, Felt), swiftness_stark::stark::Error> {
    use swiftness_air::layout as l;
    match layout {
        "dex" => verify_generic::<l::dex::Layout>(proof, security),
        "dynamic" => verify_generic::<l::dynamic::Layout>(proof, security),
        "recursive" => verify_generic::<l::recursive::Layout>(proof, security),
        "recursive_with_poseidon" => verify_generic::<l::recursive_with_poseidon::Layout>(proof, security),
        "small" => verify_generic::<l::small::Layout>(proof, security),
        "starknet" => verify_generic::<l::starknet::Layout>(proof, security),
        "starknet_with_keccak" => verify_generic::<l::starknet_with_keccak::Layout>(proof, security),
        "toy" => verify_generic::<crate::toy::ToyLayout>(proof, security),
        _ => panic!("harness: unknown layout {layout}"),
    }
}

pub struct ProofRun {
    pub outcome: Outcome,
    pub ticks: u64,
    pub bytes: u64,
}

/// Deserialises the image and runs the real verifier. `None` if the image is not a well-typed
/// proof value (then it is outside every property's quantifier).
pub fn run_image(layout: &str, image: &Value, security: Felt, tick_limit: u64) -> Option<ProofRun> {
    let proof: StarkProof = serde_json::from_value(image.clone()).ok()?;
    Some(run_proof(layout, &proof, security, tick_limit))
}

pub fn run_proof(layout: &str, proof: &StarkProof, security: Felt, tick_limit: u64) -> ProofRun {
    crate::alloc_meter::reset();
    let r = monitor::guarded(tick_limit, || verify_layout(layout, proof, security));
    ProofRun { outcome: r.outcome, ticks: r.ticks, bytes: crate::alloc_meter::requested() }
}

pub fn security_of(image: &Value) -> Felt {
    let cfg = &image["config"];
    let nq = image::felt_of(&cfg["n_queries"]).unwrap_or(Felt::ZERO);
    let lc = image::felt_of(&cfg["log_n_cosets"]).unwrap_or(Felt::ZERO);
    let pb = cfg["proof_of_work"]["n_bits"].as_u64().unwrap_or(0);
    nq * lc + Felt::from(pb)
}

/// Number of scalar values in a proof image (the proof "size" s of C17).
pub fn scalar_count(image: &Value) -> u64 {
    image::leaves(image).len() as u64
}

#[derive(Clone)]
pub struct Base {
    pub name: String,
    pub layout: String,
    pub image: Value,
    pub security: Felt,
    /// How to rebuild this base in a replay: {"kind":"recorded","file":..} or {"kind":"toy",..}
    pub spec: Value,
}

pub fn sha256_hex(bytes: &[u8]) -> String {
    use sha2::{Digest, Sha256};
    let d = Sha256::digest(bytes);
    d.iter().map(|b| format!("{b:02x}")).collect()
}

pub fn recorded_base(path: &str) -> Result<(Base, Loaded), String> {
    let text = std::fs::read_to_string(path).map_err(|e| format!("{path}: {e}"))?;
    let loaded = stone_loader::load_str(&text, path)?;
    let security = security_of(&loaded.proof);
    let short = path.trim_start_matches("/repo/examples/proofs/").to_string();
    Ok((
        Base {
            name: short,
            layout: loaded.layout.clone(),
            image: loaded.proof.clone(),
            security,
            spec: serde_json::json!({"kind": "recorded", "file": path, "sha256": sha256_hex(text.as_bytes())}),
        },
        loaded,
    ))
}

/// All shipped proofs whose file parameters match this build (these must be accepted).
pub fn matching_recorded_bases() -> Result<Vec<(Base, Loaded)>, String> {
    let mut v = Vec::new();
    for p in stone_loader::shipped_proof_paths() {
        let (b, l) = recorded_base(&p)?;
        if build_matches(&l) {
            v.push((b, l));
        }
    }
    Ok(v)
}

pub fn base_from_spec(spec: &Value) -> Result<Base, String> {
    match spec["kind"].as_str() {
        Some("recorded") => {
            let file = spec["file"].as_str().ok_or("no file")?;
            let (b, _) = recorded_base(file)?;
            if let Some(h) = spec["sha256"].as_str() {
                if b.spec["sha256"].as_str() != Some(h) {
                    return Err(format!("{file}: sha256 differs from the one recorded in the replay"));
                }
            }
            Ok(b)
        }
        Some("toy") => crate::toy::base_from_spec(spec),
        Some("image") => {
            let image = spec["image"].clone();
            Ok(Base {
                name: "inline".into(),
                layout: spec["layout"].as_str().ok_or("no layout")?.to_string(),
                security: security_of(&image),
                image,
                spec: spec.clone(),
            })
        }
        k => Err(format!("unknown base kind {k:?}")),
    }
}

/// Applies a fault list; returns None if some fault does not apply or none changed the image.
pub fn apply_faults(image: &Value, faults: &[Fault]) -> Option<Value> {
    let mut v = image.clone();
    let mut changed = false;
    for f in faults {
        match image::apply(&mut v, f) {
            Ok(c) => changed |= c,
            Err(_) => return None,
        }
    }
    if changed {
        Some(v)
    } else {
        None
    }
}
