//! Reference models that need the verifier-side types (public input digest, address-based
//! program/output extraction, configuration predicate).
use starknet_crypto::{pedersen_hash, poseidon_hash_many, Felt};
use swiftness_air::public_memory::PublicInput;

/// Dynamic parameters in *struct field order* (serde serialises fields in declaration order;
/// the text form keeps that order even though serde_json::Value would sort the keys).
pub fn dynamic_params_in_field_order(pi: &PublicInput) -> Vec<(String, u64)> {
    let Some(dp) = &pi.dynamic_params else { return vec![] };
    let text = serde_json::to_string(dp).expect("serialise dynamic params");
    let inner = text.trim().trim_start_matches('{').trim_end_matches('}');
    let mut out = Vec::new();
    for part in inner.split(',') {
        if part.trim().is_empty() {
            continue;
        }
        let mut kv = part.splitn(2, ':');
        let k = kv.next().unwrap().trim().trim_matches('"').to_string();
        let v: u64 = kv.next().unwrap().trim().parse().expect("dynamic param value");
        out.push((k, v));
    }
    out
}

/// Transcript seed for a public input, written from the protocol description.
pub fn ref_digest(pi: &PublicInput, n_verifier_friendly_commitment_layers: Felt) -> Felt {
    let mut h = Felt::ZERO;
    for cell in pi.main_page.iter() {
        h = pedersen_hash(&h, &cell.address);
        h = pedersen_hash(&h, &cell.value);
    }
    let len = pi.main_page.len() as u64;
    h = pedersen_hash(&h, &Felt::from(2 * len));

    let mut v: Vec<Felt> = Vec::new();
    if cfg!(feature = "stone6") {
        v.push(n_verifier_friendly_commitment_layers);
    }
    v.push(pi.log_n_steps);
    v.push(pi.range_check_min);
    v.push(pi.range_check_max);
    v.push(pi.layout);
    for (_, x) in dynamic_params_in_field_order(pi) {
        v.push(Felt::from(x));
    }
    for s in &pi.segments {
        v.push(s.begin_addr);
        v.push(s.stop_ptr);
    }
    v.push(pi.padding_addr);
    v.push(pi.padding_value);
    v.push(Felt::from(1 + pi.continuous_page_headers.len() as u64));
    v.push(Felt::from(len));
    v.push(h);
    for hd in &pi.continuous_page_headers {
        v.push(hd.start_address);
        v.push(hd.size);
        v.push(hd.hash);
    }
    poseidon_hash_many(&v)
}

/// Pedersen hash chain over `cells` followed by the count.
pub fn hash_chain(cells: &[Felt]) -> Felt {
    let h = cells.iter().fold(Felt::ZERO, |acc, c| pedersen_hash(&acc, c));
    pedersen_hash(&h, &Felt::from(cells.len() as u64))
}
