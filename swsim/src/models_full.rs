//! Reference models that need the verifier-side types (public input digest, address-based
//! program/output extraction, configuration predicate).
use starknet_crypto::{pedersen_hash, poseidon_hash_many, Felt};
use swiftness_air::public_memory::PublicInput;

/// Dynamic parameters in *struct field order* (serde serialises fields in declaration order;
/// the text form keeps that order even though serde_json::Value would sort the keys).
pub fn dynamic_params_in_field_order(pi: &PublicInput) -> Vec<(String, u64)> {
    let Some(dp) = &pi.dynamic_params else { return vec![] };
    let text = serde_json::to_string(dp).expect("serialise dynamic params");
    let inner = text.trim().trim_start_matches('{').trim_end_matches('}');
    let mut out = Vec::new();
    for part in inner.split(',') {
        if part.trim().is_empty() {
            continue;
        }
        let mut kv = part.splitn(2, ':');
        let k = kv.next().unwrap().trim().trim_matches('"').to_string();
        let v: u64 = kv.next().unwrap().trim().parse().expect("dynamic param value");
        out.push((k, v));
    }
    out
}

/// Transcript seed for a public input, written from the protocol description.
pub fn ref_digest(pi: &PublicInput, n_verifier_friendly_commitment_layers: Felt) -> Felt {
    let mut h = Felt::ZERO;
    for cell in pi.main_page.iter() {
        h = pedersen_hash(&h, &cell.address);
        h = pedersen_hash(&h, &cell.value);
    }
    let len = pi.main_page.len() as u64;
    h = pedersen_hash(&h, &Felt::from(2 * len));

    let mut v: Vec<Felt> = Vec::new();
    if cfg!(feature = "stone6") {
        v.push(n_verifier_friendly_commitment_layers);
    }
    v.push(pi.log_n_steps);
    v.push(pi.range_check_min);
    v.push(pi.range_check_max);
    v.push(pi.layout);
    for (_, x) in dynamic_params_in_field_order(pi) {
        v.push(Felt::from(x));
    }
    for s in &pi.segments {
        v.push(s.begin_addr);
        v.push(s.stop_ptr);
    }
    v.push(pi.padding_addr);
    v.push(pi.padding_value);
    v.push(Felt::from(1 + pi.continuous_page_headers.len() as u64));
    v.push(Felt::from(len));
    v.push(h);
    for hd in &pi.continuous_page_headers {
        v.push(hd.start_address);
        v.push(hd.size);
        v.push(hd.hash);
    }
    poseidon_hash_many(&v)
}

/// Pedersen hash chain over `cells` followed by the count.
pub fn hash_chain(cells: &[Felt]) -> Felt {
    let h = cells.iter().fold(Felt::ZERO, |acc, c| pedersen_hash(&acc, c));
    pedersen_hash(&h, &Felt::from(cells.len() as u64))
}

// ------------------------------------------------------------------------------------------
// public input: layout tables and the three-valued validation predicate
// ------------------------------------------------------------------------------------------

use num_bigint::BigUint;

/// (segment index, memory cells per builtin instance, trace rows per instance)
pub struct LayoutFacts {
    pub n_segments: usize,
    pub builtins: &'static [(usize, u64, u64)],
}

pub fn layout_facts(layout: &str) -> Option<LayoutFacts> {
    Some(match layout {
        "dex" | "small" => LayoutFacts { n_segments: 6, builtins: &[(3, 3, 128), (4, 1, 128), (5, 2, 8192)] },
        "recursive" => LayoutFacts { n_segments: 6, builtins: &[(3, 3, 2048), (4, 1, 128), (5, 5, 128)] },
        "recursive_with_poseidon" => LayoutFacts { n_segments: 7, builtins: &[(3, 3, 4096), (4, 1, 256), (5, 5, 256), (6, 6, 1024)] },
        "starknet" => LayoutFacts { n_segments: 9, builtins: &[(3, 3, 512), (4, 1, 256), (5, 2, 32768), (6, 5, 1024), (7, 7, 16384), (8, 6, 512)] },
        // keccak (segment 8, 16 cells) is batched: only the whole-number clause is modelled for it
        "starknet_with_keccak" => LayoutFacts { n_segments: 10, builtins: &[(3, 3, 512), (4, 1, 256), (5, 2, 32768), (6, 5, 1024), (7, 7, 16384), (9, 6, 512)] },
        _ => return None,
    })
}

/// (segment index, cells per instance, capacity in instances or None if not modelled) for every
/// builtin of `layout`, static or dynamic, given the trace exponent.
pub fn builtin_capacities(layout: &str, pi: &PublicInput, log_trace: u64) -> Option<(usize, Vec<(usize, u64, Option<BigUint>)>)> {
    let trace_len = BigUint::from(1u32) << (log_trace as usize);
    if layout == "dynamic" {
        let dp: std::collections::BTreeMap<String, u64> = dynamic_params_in_field_order(pi).into_iter().collect();
        if dp.is_empty() {
            return None;
        }
        let table: [(usize, u64, &str, &str); 10] = [
            (3, 3, "uses_pedersen_builtin", "pedersen_builtin_row_ratio"),
            (4, 1, "uses_range_check_builtin", "range_check_builtin_row_ratio"),
            (5, 2, "uses_ecdsa_builtin", "ecdsa_builtin_row_ratio"),
            (6, 5, "uses_bitwise_builtin", "bitwise_row_ratio"),
            (7, 7, "uses_ec_op_builtin", "ec_op_builtin_row_ratio"),
            (8, 16, "uses_keccak_builtin", "keccak_row_ratio"),
            (9, 6, "uses_poseidon_builtin", "poseidon_row_ratio"),
            (10, 1, "uses_range_check96_builtin", "range_check96_builtin_row_ratio"),
            (11, 7, "uses_add_mod_builtin", "add_mod_row_ratio"),
            (12, 7, "uses_mul_mod_builtin", "mul_mod_row_ratio"),
        ];
        let mut v = Vec::new();
        for (seg, cells, uses, ratio) in table {
            let cap = match (dp.get(uses), dp.get(ratio)) {
                (Some(0), _) => Some(BigUint::from(0u32)),
                (Some(_), Some(r)) if *r > 0 && (&trace_len % BigUint::from(*r)) == BigUint::from(0u32) => Some(&trace_len / BigUint::from(*r)),
                _ => None,
            };
            v.push((seg, cells, cap));
        }
        return Some((13, v));
    }
    let facts = layout_facts(layout)?;
    let mut v: Vec<(usize, u64, Option<BigUint>)> = facts
        .builtins
        .iter()
        .map(|(seg, cells, rows)| {
            let cap = if (&trace_len % BigUint::from(*rows)) == BigUint::from(0u32) { Some(&trace_len / BigUint::from(*rows)) } else { None };
            (*seg, *cells, cap)
        })
        .collect();
    if layout == "starknet_with_keccak" {
        v.push((8, 16, None)); // batched keccak: capacity not modelled
    }
    Some((facts.n_segments, v))
}

#[derive(Debug, Clone, PartialEq)]
pub enum Verdict3 {
    MustAccept,
    MustReject(String),
    NotStated(String),
}

fn big(f: &Felt) -> BigUint {
    f.to_biguint()
}

/// The C14 validation predicate for the static layouts, three-valued: only clauses the property
/// makes explicit decide; everything else is NotStated.
pub fn ref_validate_public_input(pi: &PublicInput, layout: &str, log_trace: &Felt) -> Verdict3 {
    let lt = big(log_trace);
    let ls = big(&pi.log_n_steps);
    if lt > BigUint::from(64u32) {
        return Verdict3::NotStated("huge trace exponent".into());
    }
    let lt_u: u64 = lt.to_u64_digits().first().copied().unwrap_or(0);
    let step_log = if layout == "dynamic" {
        let dp: std::collections::BTreeMap<String, u64> = dynamic_params_in_field_order(pi).into_iter().collect();
        match dp.get("cpu_component_step") {
            Some(s) if s.is_power_of_two() => s.trailing_zeros() as u64,
            _ => return Verdict3::NotStated("cpu_component_step".into()),
        }
    } else {
        0
    };
    let Some((n_segments, builtins)) = builtin_capacities(layout, pi, lt_u) else { return Verdict3::NotStated("no model for this layout".into()) };
    if ls.clone() + BigUint::from(4 + step_log) != lt {
        return Verdict3::MustReject("step count does not match the trace length".into());
    }
    if pi.segments.len() != n_segments {
        return Verdict3::MustReject("segment count".into());
    }
    if pi.layout != Felt::from_bytes_be_slice(layout.as_bytes()) {
        return Verdict3::MustReject("layout code".into());
    }
    let (rmin, rmax) = (big(&pi.range_check_min), big(&pi.range_check_max));
    if rmax > BigUint::from(0xffffu32) || rmin > rmax {
        return Verdict3::MustReject("range-check bounds".into());
    }
    if rmin == rmax {
        return Verdict3::NotStated("equal range-check bounds".into());
    }
    let mut not_stated = None;
    for (seg, cells, cap) in &builtins {
        let s = &pi.segments[*seg];
        let (b, e) = (big(&s.begin_addr), big(&s.stop_ptr));
        if e < b {
            return Verdict3::MustReject(format!("segment {seg}: stop before begin"));
        }
        let used = e - b;
        if &used % BigUint::from(*cells) != BigUint::from(0u32) {
            return Verdict3::MustReject(format!("segment {seg}: not a whole number of instances"));
        }
        let instances = used / BigUint::from(*cells);
        match cap {
            Some(c) => {
                if instances > *c {
                    return Verdict3::MustReject(format!("segment {seg}: more instances than the trace holds"));
                }
            }
            None => {
                not_stated.get_or_insert(format!("capacity of segment {seg} not modelled"));
            }
        }
    }
    // output segment: any size is allowed by the statement (no instance structure)
    let o = &pi.segments[2];
    if big(&o.stop_ptr) < big(&o.begin_addr) {
        return Verdict3::NotStated("negative output size".into());
    }
    // (the code also refuses output sizes of 2^128 cells and more; no memory holds 2^64 cells, and
    // the property lists no clause about the output size: not stated either way)
    if big(&o.stop_ptr) - big(&o.begin_addr) >= (BigUint::from(1u32) << 64) {
        return Verdict3::NotStated("output size beyond any memory".into());
    }
    match not_stated {
        Some(w) => Verdict3::NotStated(w),
        None => Verdict3::MustAccept,
    }
}

/// Address-based program / output extraction (C14, C03).
#[derive(Debug, Clone, PartialEq)]
pub enum Hashes3 {
    /// the page has the program and output cells at the right addresses: if the verifier returns
    /// Ok the pair must be this one
    Pair(Felt, Felt),
    /// cells at other addresses / page too short: must be rejected
    MustReject(String),
    NotStated(String),
}

pub fn ref_program_output(pi: &PublicInput) -> Hashes3 {
    if pi.segments.len() < 3 {
        return Hashes3::NotStated("fewer than three segments".into());
    }
    let pc = big(&pi.segments[0].begin_addr);
    let fp = big(&pi.segments[1].begin_addr);
    let (ob, oe) = (big(&pi.segments[2].begin_addr), big(&pi.segments[2].stop_ptr));
    if fp < pc.clone() + BigUint::from(2u32) || oe < ob {
        return Hashes3::NotStated("degenerate segment bounds".into());
    }
    let p_len = fp - BigUint::from(2u32) - &pc;
    let o_len = &oe - &ob;
    let n = BigUint::from(pi.main_page.len() as u64);
    if &p_len + &o_len > n {
        return Hashes3::MustReject("main page shorter than program + output".into());
    }
    let p_len = p_len.to_u64_digits().first().copied().unwrap_or(0) as usize;
    let o_len = o_len.to_u64_digits().first().copied().unwrap_or(0) as usize;
    let page = &pi.main_page;
    let mut program = Vec::new();
    for i in 0..p_len {
        if big(&page[i].address) != &pc + BigUint::from(i as u64) {
            return Hashes3::MustReject(format!("program cell {i} is not at address pc+{i}"));
        }
        program.push(page[i].value);
    }
    let mut output = Vec::new();
    for j in 0..o_len {
        let c = &page[page.len() - o_len + j];
        if big(&c.address) != &ob + BigUint::from(j as u64) {
            return Hashes3::MustReject(format!("output cell {j} is not at address output_start+{j}"));
        }
        output.push(c.value);
    }
    Hashes3::Pair(hash_chain(&program), hash_chain(&output))
}
