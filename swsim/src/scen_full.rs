//! Checks that need the verifier-side types but not a fault on a whole proof:
//! C03 (build matrix), C13 (digest), C14 (public-input validation / hashes).
use crate::common::{replay_envelope, Ctx};
use crate::image::{self, Fault};
use crate::models::{self, RefTranscript};
use crate::models_full::{self, Hashes3, Verdict3};
use crate::monitor::{self, Outcome};
use crate::proofrun::{self, LAYOUTS};
use crate::rng::Rng;
use crate::stone_loader::{self, Loaded};
use serde_json::{json, Value};
use starknet_crypto::Felt;
use swiftness_air::domains::StarkDomains;
use swiftness_air::public_memory::PublicInput;
use swiftness_stark::types::StarkProof;

fn load_all(ctx: &mut Ctx) -> Vec<Loaded> {
    let mut v = Vec::new();
    for p in stone_loader::shipped_proof_paths() {
        match stone_loader::load_file(&p) {
            Ok(l) => v.push(l),
            Err(e) => ctx.harness_error(&format!("independent loader failed on {p}: {e}")),
        }
    }
    if v.is_empty() {
        ctx.harness_error("no shipped proofs found under /repo/examples/proofs");
    }
    v
}

fn proof_of(l: &Loaded) -> StarkProof {
    serde_json::from_value(l.proof.clone()).expect("loader image deserialises")
}

// ------------------------------------------------------------------------------------------
// C03
// ------------------------------------------------------------------------------------------

fn file_pow_family(l: &Loaded) -> &'static str {
    if l.pow_hash.starts_with("keccak") {
        "keccak"
    } else {
        "blake2s"
    }
}

/// Does this build have to accept the recorded run `l` when verified as `layout`?
fn c03_expectation(l: &Loaded, layout: &str) -> (bool, String) {
    if l.layout != layout {
        return (false, "other layout".into());
    }
    if l.stone6 != (proofrun::variant_stone() == "stone6") {
        return (false, "other Stone version".into());
    }
    let build_pow = if proofrun::variant_hash().starts_with("keccak") { "keccak" } else { "blake2s" };
    if file_pow_family(l) != build_pow {
        return (false, "other proof-of-work hash".into());
    }
    if proofrun::build_matches(l) {
        return (true, "matching build".into());
    }
    // same layout, Stone version and PoW family, other commitment-hash variant: accepted iff no
    // masked-hash layer is ever used (every layer incl. the row layer is verifier friendly)
    let cfg = &l.proof["config"];
    let f = |v: &Value| -> u64 { image::felt_of(v).and_then(|x| x.to_biguint().try_into().ok()).unwrap_or(0) };
    let log_eval = f(&cfg["log_trace_domain_size"]) + f(&cfg["log_n_cosets"]);
    let nvf = f(&cfg["n_verifier_friendly_commitment_layers"]);
    if nvf >= log_eval + 1 {
        (true, "all layers verifier friendly".into())
    } else {
        (false, "masked-hash layers depend on the commitment hash".into())
    }
}

pub fn c03(ctx: &mut Ctx) {
    let scenario = "c03.matrix";
    let loaded = load_all(ctx);
    let mut unit = 0u64;
    // the in-tree fixture as a 26th recorded run (recursive / keccak_160_lsb / stone5)
    let fixture = StarkProof {
        config: swiftness_stark::fixtures::config::get(),
        public_input: swiftness_air::fixtures::public_input::get(),
        unsent_commitment: swiftness_stark::fixtures::unsent_commitment::get(),
        witness: swiftness_stark::fixtures::witness::get(),
    };
    let fixture_image = serde_json::to_value(&fixture).unwrap();
    let mut runs: Vec<(String, String, Value, Felt, Option<usize>)> = Vec::new(); // (name, file layout, image, security, loaded idx)
    for (i, l) in loaded.iter().enumerate() {
        runs.push((l.file.trim_start_matches("/repo/examples/proofs/").to_string(), l.layout.clone(), l.proof.clone(), proofrun::security_of(&l.proof), Some(i)));
    }
    runs.push(("in-tree fixture".into(), "recursive".into(), fixture_image, Felt::from(0x32u64), None));
    ctx.stats.extra.insert("matrix".into(), json!(format!("{} recorded runs x {} layouts under build {}", runs.len(), LAYOUTS.len(), proofrun::variant_name())));
    for (name, file_layout, img, security, li) in &runs {
        for layout in LAYOUTS {
            let mine = ctx.mine(unit);
            unit += 1;
            if !mine {
                continue;
            }
            ctx.begin_run(scenario, unit);
            let (expect, why) = match li {
                Some(i) => c03_expectation(&loaded[*i], layout),
                None => {
                    let ok = layout == "recursive" && proofrun::variant_stone() == "stone5" && proofrun::variant_hash().starts_with("keccak");
                    // fixture: n_friendly = 100 > height+1, so the 160/248 variant does not matter
                    (ok, if ok { "fixture build".into() } else { "other build".to_string() })
                }
            };
            let Some(run) = proofrun::run_image(layout, img, *security, u64::MAX) else {
                ctx.harness_error("recorded image does not deserialise");
            };
            ctx.stats.evaluations += 1;
            ctx.stats.messages_delivered += proofrun::scalar_count(img);
            ctx.stats.ticks_total += run.ticks;
            let skew = if expect { "zero-fault" } else { "version-skew" };
            ctx.stats.fired(skew);
            ctx.stats.state(format!("{file_layout}|as:{layout}|{why}|{}", run.outcome.class()));
            let variant = ctx.variant.clone();
            let mk = |oracle: &str, o: &Outcome| {
                let base = match li {
                    Some(i) => json!({"kind": "recorded", "file": loaded[*i].file}),
                    None => json!({"kind": "image", "layout": layout, "image": img}),
                };
                replay_envelope("C03", scenario, &variant, json!({"base": base, "layout": layout, "faults": [], "oracle": oracle, "expected_outcome": o.describe()}))
            };
            if expect && !run.outcome.is_accept() {
                let rep = mk("honest-rejected", &run.outcome);
                ctx.violation(&format!("C03|honest-rejected|{file_layout}|{}", run.outcome.class()), &format!("{name} verified as {layout} under {} ({why}): {}", proofrun::variant_name(), run.outcome.describe()), rep);
                continue;
            }
            if !expect && run.outcome.is_accept() {
                let rep = mk("mutant-accepted", &run.outcome);
                ctx.violation(&format!("C03|skew-accepted|{why}"), &format!("{name} verified as {layout} under {} must be rejected ({why}) but was accepted", proofrun::variant_name()), rep);
                continue;
            }
            if !expect {
                continue;
            }
            // returned pair = address-based Pedersen chains
            let proof: StarkProof = serde_json::from_value(img.clone()).unwrap();
            let want = models_full::ref_program_output(&proof.public_input);
            if let (Hashes3::Pair(p, o), Outcome::Accept(got)) = (&want, &run.outcome) {
                let expect_str = format!("{:?}", (p, o));
                if *got != expect_str {
                    let rep = mk("wrong-hashes", &run.outcome);
                    ctx.violation("C03|wrong-hashes", &format!("{name}: returned {got}, address-based chains give {expect_str}"), rep);
                }
            } else {
                let rep = mk("wrong-hashes", &run.outcome);
                ctx.violation("C03|wrong-hashes", &format!("{name}: reference extraction says {want:?}"), rep);
            }
            // serialise -> deserialise round trip leaves verdict and pair unchanged
            let text = serde_json::to_string(&proof).unwrap();
            match serde_json::from_str::<StarkProof>(&text) {
                Ok(p2) => {
                    let r2 = proofrun::run_proof(layout, &p2, *security, u64::MAX);
                    ctx.stats.evaluations += 1;
                    ctx.stats.fired("serde-round-trip");
                    if r2.outcome != run.outcome {
                        let rep = mk("honest-rejected", &r2.outcome);
                        ctx.violation("C03|round-trip-changes-verdict", &format!("{name}: after serialise/deserialise {} (before: {})", r2.outcome.describe(), run.outcome.describe()), rep);
                    }
                    // textual re-encoding of a seed-chosen value (leading zeros / upper case)
                    let mut rng = Rng::derive(ctx.seed, scenario, unit);
                    let mut v: Value = serde_json::from_str(&text).unwrap();
                    let leaves = image::leaves(&v);
                    for _ in 0..3 {
                        let l = rng.pick(&leaves);
                        if let Some(Value::String(s)) = image::get_mut(&mut v, &l.path) {
                            let digits = s.trim_start_matches("0x").to_string();
                            // (more than 64 hex digits make the field library's parser panic: out of
                            // scope here, non-canonical encodings are not part of any property)
                            *s = if rng.chance(1, 2) && digits.len() <= 62 { format!("0x00{digits}") } else { format!("0x{}", digits.to_uppercase()) };
                        }
                    }
                    if let Ok(p3) = serde_json::from_value::<StarkProof>(v) {
                        let r3 = proofrun::run_proof(layout, &p3, *security, u64::MAX);
                        ctx.stats.evaluations += 1;
                        if r3.outcome != run.outcome {
                            let rep = mk("honest-rejected", &r3.outcome);
                            ctx.violation("C03|round-trip-changes-verdict", &format!("{name}: re-encoded hex text changes the verdict to {}", r3.outcome.describe()), rep);
                        }
                    } else {
                        ctx.stats.probe("reencoded-text-not-accepted-by-deserialiser");
                    }
                }
                Err(e) => {
                    let rep = mk("honest-rejected", &run.outcome);
                    ctx.violation("C03|round-trip-fails", &format!("{name}: serialised proof does not deserialise: {e}"), rep);
                }
            }
            if ctx.stats.samples.len() < 4 {
                ctx.stats.sample(json!({"run": name, "verified_as": layout, "build": proofrun::variant_name(), "expected": why, "outcome": run.outcome.class()}));
            }
        }
    }
}

// ------------------------------------------------------------------------------------------
// C13
// ------------------------------------------------------------------------------------------

fn digest_of(pi_image: &Value, nvf: Felt) -> Option<(Outcome, Option<Felt>)> {
    let pi: PublicInput = serde_json::from_value(pi_image.clone()).ok()?;
    let r = monitor::guarded_val(10_000_000, || pi.get_hash(nvf));
    let d = if r.outcome.is_accept() { Some(pi.get_hash(nvf)) } else { None };
    Some((r.outcome, d))
}

/// Synthetic public inputs: a recorded one plus continuous-page headers / perturbed dynamic
/// parameters, so that every field class of the digest has data behind it.
fn c13_bases(loaded: &[Loaded], rng: &mut Rng) -> Vec<(String, Value, Felt)> {
    let mut out = Vec::new();
    for l in loaded {
        let nvf = image::felt_of(&l.proof["config"]["n_verifier_friendly_commitment_layers"]).unwrap();
        out.push((format!("recorded:{}", l.file.trim_start_matches("/repo/examples/proofs/")), l.proof["public_input"].clone(), nvf));
    }
    let n = out.len();
    for i in 0..n {
        if i % 3 != 0 && out[i].1.get("dynamic_params").is_none() {
            continue;
        }
        let (name, mut pi, nvf) = out[i].clone();
        let k = rng.range(1, 3);
        let headers: Vec<Value> = (0..k)
            .map(|_| json!({"start_address": image::felt_hex(&Felt::from(rng.below(1 << 30))), "size": image::felt_hex(&Felt::from(rng.range(1, 1000))), "hash": image::felt_hex(&rng.felt()), "prod": image::felt_hex(&rng.felt())}))
            .collect();
        pi["continuous_page_headers"] = Value::Array(headers);
        if let Some(dp) = pi.get_mut("dynamic_params").and_then(|d| d.as_object_mut()) {
            // make every dynamic parameter distinct so that a swapped / duplicated slot shows
            for (j, (_, v)) in dp.iter_mut().enumerate() {
                *v = json!(1000 + 7 * j as u64 + rng.below(5));
            }
        }
        out.push((format!("synthetic:{name}"), pi, nvf));
    }
    out
}

pub fn c13(ctx: &mut Ctx) {
    let scenario = "c13.digest";
    let loaded = load_all(ctx);
    let mut brng = Rng::derive(ctx.seed, scenario, 0);
    let bases = c13_bases(&loaded, &mut brng);
    let mut unit = 0u64;
    for (bi, (name, pi, nvf)) in bases.iter().enumerate() {
        // base-level checks are done by one worker, the faults of a base are sharded over all
        let base_owner = ctx.mine(unit);
        unit += 1;
        ctx.begin_run(scenario, unit);
        let mut rng = Rng::derive(ctx.seed, scenario, 1000 + bi as u64);
        let mk = |ctx: &Ctx, faults: &[Fault], what: &str| {
            replay_envelope("C13", scenario, &ctx.variant, json!({"call": "digest", "public_input": pi, "n_friendly": image::felt_hex(nvf), "faults": faults, "oracle": what}))
        };
        let Some((o, Some(d0))) = digest_of(pi, *nvf) else {
            ctx.violation("C13|digest-fails", &format!("get_hash failed on {name}"), mk(ctx, &[], "digest-fails"));
            continue;
        };
        let _ = o;
        if base_owner {
            ctx.stats.evaluations += 1;
        }
        // model equality + determinism
        let pi_t: PublicInput = serde_json::from_value(pi.clone()).unwrap();
        let want = models_full::ref_digest(&pi_t, *nvf);
        if base_owner && want != d0 {
            ctx.violation("C13|model-mismatch", &format!("{name}: get_hash = {:#x}, protocol reference = {:#x}", d0, want), mk(ctx, &[], "model-mismatch"));
            continue;
        }
        if base_owner && digest_of(pi, *nvf).and_then(|x| x.1) != Some(d0) {
            ctx.violation("C13|nondeterministic", &format!("{name}: equal public inputs, different seeds"), mk(ctx, &[], "nondeterministic"));
        }
        // recorded: the seed reproduces the prover's first challenge
        if base_owner && bi < loaded.len() {
            let l = &loaded[bi];
            if l.stone6 == (proofrun::variant_stone() == "stone6") {
                let mut t = RefTranscript::new(d0);
                t.absorb(&[image::felt_of(&l.proof["unsent_commitment"]["traces"]["original"]).unwrap()]);
                let first = t.squeeze();
                if Some(&first) != l.challenges.interaction_elements.first() {
                    ctx.violation("C13|recorded-first-challenge", &format!("{name}: seed does not reproduce the prover's first logged challenge"), mk(ctx, &[], "recorded-first-challenge"));
                } else {
                    ctx.stats.probe("recorded-first-challenge-reproduced");
                }
            }
        }
        // single-field changes
        let mut faults: Vec<(String, Vec<Fault>)> = Vec::new();
        for l in image::leaves(pi) {
            let path = image::path_str(&l.path);
            let cls = image::path_class(&l.path);
            if cls.ends_with("continuous_page_headers[].prod") {
                continue; // not listed by the property
            }
            let old = image::get(pi, &l.path).unwrap();
            let f = match old {
                Value::String(s) => Fault::Set { path: path.clone(), value: image::felt_hex(&(Felt::from_hex(s).unwrap() + Felt::ONE)) },
                Value::Number(n) => {
                    // machine-word fields: also a change in the high half only (2^32) and the top bit
                    let cur = n.as_u64().unwrap();
                    faults.push((format!("field-high-bits:{cls}"), vec![Fault::Set { path: path.clone(), value: (cur ^ (1u64 << 32)).to_string() }]));
                    if rng.chance(1, 8) {
                        faults.push((format!("field-high-bits:{cls}"), vec![Fault::Set { path: path.clone(), value: (cur ^ (1u64 << 63)).to_string() }]));
                    }
                    Fault::Set { path: path.clone(), value: (cur + 1).to_string() }
                }
                _ => continue,
            };
            faults.push((format!("field:{cls}"), vec![f]));
        }
        // structural changes of main page, headers, segments
        for (vp, len) in image::vectors(pi) {
            let path = image::path_str(&vp);
            if len == 0 {
                continue;
            }
            let i = rng.usize_below(len);
            faults.push((format!("delete:{}", image::path_class(&vp)), vec![Fault::Delete { path: path.clone(), index: i }]));
            faults.push((format!("delete:{}", image::path_class(&vp)), vec![Fault::Delete { path: path.clone(), index: len - 1 }]));
            faults.push((format!("duplicate:{}", image::path_class(&vp)), vec![Fault::Dup { path: path.clone(), index: i }]));
            if len >= 2 {
                let j = rng.usize_below(len - 1);
                faults.push((format!("transpose:{}", image::path_class(&vp)), vec![Fault::Swap { path: path.clone(), i: j, j: j + 1 }]));
            }
        }
        if !ctx.is_quick() || faults.len() <= 900 {
        } else {
            // keep every class, sample within
            let mut seen = std::collections::BTreeMap::new();
            faults.retain(|(k, _)| {
                let c = seen.entry(k.clone()).or_insert(0usize);
                *c += 1;
                *c <= 400
            });
        }
        for (kind, fl) in faults {
            let mine = ctx.mine(unit);
            unit += 1;
            if !mine {
                continue;
            }
            let Some(img) = proofrun::apply_faults(pi, &fl) else {
                ctx.stats.skip("noop");
                continue;
            };
            let Some((_, d1)) = digest_of(&img, *nvf) else {
                ctx.stats.skip("illtyped");
                continue;
            };
            ctx.stats.evaluations += 1;
            ctx.stats.fired(kind.split(':').next().unwrap());
            ctx.stats.state(format!("{}|{kind}|{}", name.split(':').next().unwrap(), if d1 == Some(d0) { "SAME" } else { "DIFFERENT" }));
            if d1 == Some(d0) {
                ctx.violation(&format!("C13|unbound|{kind}"), &format!("{name}: {:?} leaves the transcript seed unchanged", fl), mk(ctx, &fl, "unbound"));
            }
        }
        // the friendly-layer count under Stone 6
        if base_owner && proofrun::variant_stone() == "stone6" {
            ctx.stats.evaluations += 1;
            ctx.stats.fired("n_friendly");
            if digest_of(pi, *nvf + Felt::ONE).and_then(|x| x.1) == Some(d0) {
                ctx.violation("C13|unbound|n_friendly", &format!("{name}: friendly-layer count not bound under Stone 6"), mk(ctx, &[], "unbound-nvf"));
            }
        }
        if base_owner && ctx.stats.samples.len() < 3 {
            ctx.stats.sample(json!({"base": name, "seed_digest": image::felt_hex(&d0)}));
        }
    }
    c13_page_shapes(ctx, &loaded);
}

/// Statements whose main page is long (beyond any batch size a hashing loop might use) or longer
/// than the declared number of steps: the digest equals the reference over *all* cells, and cells
/// at and around block boundaries, beyond the step count and at both ends are bound.
fn c13_page_shapes(ctx: &mut Ctx, loaded: &[Loaded]) {
    let scenario = "c13.digest";
    let Some(l) = loaded.first() else { return };
    let nvf = image::felt_of(&l.proof["config"]["n_verifier_friendly_commitment_layers"]).unwrap();
    for p in ["page-longer-than-steps", "page-longer-than-1024", "page-longer-than-4096"] {
        ctx.stats.declare_probe(p);
    }
    let lens: &[usize] = if ctx.is_quick() { &[40, 1024, 1025, 1030, 2051] } else { &[40, 255, 256, 257, 1023, 1024, 1025, 1030, 2049, 2051, 3076, 4097, 8200] };
    let mut unit = 50_000u64;
    for (si, &n) in lens.iter().enumerate() {
        for log_steps in [0u64, 3, 5, 14] {
            let mine = ctx.mine(unit);
            unit += 1;
            if !mine {
                continue;
            }
            ctx.begin_run(scenario, unit);
            let mut rng = Rng::derive(ctx.seed, "c13.page-shapes", (si as u64) << 8 | log_steps);
            let mut pi = l.proof["public_input"].clone();
            pi["main_page"] = json!((0..n).map(|i| json!({"address": image::felt_hex(&Felt::from(1 + i as u64)), "value": image::felt_hex(&rng.felt())})).collect::<Vec<_>>());
            pi["log_n_steps"] = json!(image::felt_hex(&Felt::from(log_steps)));
            if (n as u64) > (1 << log_steps) {
                ctx.stats.probe("page-longer-than-steps");
            }
            if n > 1024 {
                ctx.stats.probe("page-longer-than-1024");
            }
            if n > 4096 {
                ctx.stats.probe("page-longer-than-4096");
            }
            let name = format!("synthetic:page{n}:log_n_steps{log_steps}");
            let mk = |ctx: &Ctx, faults: &[Fault], what: &str| replay_envelope("C13", scenario, &ctx.variant, json!({"call": "digest", "public_input": pi, "n_friendly": image::felt_hex(&nvf), "faults": faults, "oracle": what}));
            let Some((_, Some(d0))) = digest_of(&pi, nvf) else {
                ctx.violation("C13|digest-fails", &format!("get_hash failed on {name}"), mk(ctx, &[], "digest-fails"));
                continue;
            };
            ctx.stats.evaluations += 1;
            let pi_t: PublicInput = serde_json::from_value(pi.clone()).unwrap();
            let want = models_full::ref_digest(&pi_t, nvf);
            ctx.stats.state(format!("page-shape|len{}|steps{log_steps}|{}", n, want == d0));
            if want != d0 {
                ctx.violation("C13|model-mismatch", &format!("{name}: get_hash = {:#x}, protocol reference = {:#x}", d0, want), mk(ctx, &[], "model-mismatch"));
                continue;
            }
            let mut idx: Vec<usize> = vec![0, n - 1, n / 2, (1usize << log_steps).min(n - 1), (1usize << log_steps).saturating_sub(1).min(n - 1)];
            for b in [256usize, 1024, 2048, 2049, 3074, 4096] {
                for d in [0usize, 1] {
                    if b + d < n {
                        idx.push(b + d);
                    }
                    if b >= 1 + d && b - 1 - d < n {
                        idx.push(b - 1 - d);
                    }
                }
            }
            idx.sort();
            idx.dedup();
            for i in idx {
                for field in ["address", "value"] {
                    let path = format!("main_page[{i}].{field}");
                    let old = image::felt_of(&pi["main_page"][i][field]).unwrap();
                    let f = Fault::Set { path: path.clone(), value: image::felt_hex(&(old + Felt::ONE)) };
                    let Some(img) = proofrun::apply_faults(&pi, std::slice::from_ref(&f)) else { continue };
                    ctx.stats.evaluations += 1;
                    ctx.stats.fired("field");
                    if digest_of(&img, nvf).and_then(|x| x.1) == Some(d0) {
                        ctx.violation(&format!("C13|unbound|field:main_page[].{field}"), &format!("{name}: {f:?} leaves the transcript seed unchanged"), mk(ctx, &[f], "unbound"));
                    }
                }
            }
        }
    }
}

// ------------------------------------------------------------------------------------------
// C14
// ------------------------------------------------------------------------------------------

fn validate_entry(layout: &str, pi: &PublicInput, log_trace: Felt, log_cosets: Felt) -> Outcome {
    fn g<L: swiftness_air::layout::LayoutTrait>(pi: &PublicInput, d: &StarkDomains) -> Outcome {
        monitor::guarded(10_000_000, || L::validate_public_input(pi, d)).outcome
    }
    // domains are built outside the guard only for sane exponents
    let d = StarkDomains::new(log_trace, log_cosets);
    crate::with_layout!(layout, g, pi, &d)
}

fn verify_pi_entry(layout: &str, pi: &PublicInput) -> Outcome {
    fn g<L: swiftness_air::layout::LayoutTrait>(pi: &PublicInput) -> Outcome {
        monitor::guarded(10_000_000, || L::verify_public_input(pi)).outcome
    }
    crate::with_layout!(layout, g, pi)
}

pub fn c14(ctx: &mut Ctx) {
    let scenario = "c14.public-input";
    let loaded = load_all(ctx);
    let mut unit = 0u64;
    for (bi, l) in loaded.iter().enumerate() {
        let mine = ctx.mine(unit);
        unit += 1;
        if !mine {
            continue;
        }
        ctx.begin_run(scenario, unit);
        let mut rng = Rng::derive(ctx.seed, scenario, bi as u64);
        let layout = l.layout.as_str();
        let pi = &l.proof["public_input"];
        let log_trace = image::felt_of(&l.proof["config"]["log_trace_domain_size"]).unwrap();
        let log_cosets = image::felt_of(&l.proof["config"]["log_n_cosets"]).unwrap();
        let name = l.file.trim_start_matches("/repo/examples/proofs/").to_string();
        let mk = |ctx: &Ctx, faults: &[Fault], entry: &str, o: &Outcome| {
            replay_envelope("C14", scenario, &ctx.variant, json!({"call": "public_input", "file": l.file, "layout": layout, "faults": faults, "entry": entry, "expected_outcome": o.describe()}))
        };
        // ---- faults ---------------------------------------------------------------------
        let mut faults: Vec<(String, Vec<Fault>, bool)> = vec![("none".into(), vec![], true)]; // (kind, faults, constructed-valid)
        let setf = |path: String, v: Felt| Fault::Set { path, value: image::felt_hex(&v) };
        let getf = |p: &str| image::felt_of(image::get(pi, &image::parse_path(p)).unwrap()).unwrap();
        for (p, deltas) in [("log_n_steps", vec![1i64, -1]), ("layout", vec![1]), ("range_check_max", vec![1, -1]), ("range_check_min", vec![1, -1])] {
            for d in deltas {
                let v = if d > 0 { getf(p) + Felt::from(d as u64) } else { getf(p) - Felt::from((-d) as u64) };
                faults.push((format!("{p}{d:+}"), vec![setf(p.to_string(), v)], false));
            }
        }
        // exponent aliases: 2^(e + k·ord(2)) = 2^e in the field
        if let Ok(e0) = u64::try_from(getf("log_n_steps").to_biguint()) {
            let al = models::exponent_aliases(e0);
            for v in [al.first(), al.last()].into_iter().flatten() {
                faults.push(("log_n_steps=alias".into(), vec![setf("log_n_steps".into(), *v)], false));
            }
        }
        // output segment: lengths that agree with the honest one (or with 0) in the low machine word
        {
            let (ob, oe) = (getf("segments[2].begin_addr"), getf("segments[2].stop_ptr"));
            for (nm, v) in [("output:stop+2^64", oe + models::pow2(64)), ("output:stop+k*2^64", oe + models::pow2(64) * Felt::from(rng.range(2, 1 << 30))), ("output:stop+2^128", oe + models::pow2(128)), ("output:stop=begin-1", ob - Felt::ONE), ("output:stop=begin+2^64", ob + models::pow2(64)), ("output:stop=begin+2^64-1", ob + models::pow2(64) - Felt::ONE), ("output:stop=begin+2^64-5", ob + models::pow2(64) - Felt::from(5u64)), ("output:stop=begin+2^63", ob + models::pow2(63))] {
                faults.push((nm.into(), vec![setf("segments[2].stop_ptr".into(), v)], false));
            }
            faults.push(("output:begin+2^64".into(), vec![setf("segments[2].begin_addr".into(), ob + models::pow2(64))], false));
            let (pb, pe) = (getf("segments[0].begin_addr"), getf("segments[0].stop_ptr"));
            faults.push(("program:begin+2^64".into(), vec![setf("segments[0].begin_addr".into(), pb + models::pow2(64))], false));
            faults.push(("program:stop+2^64".into(), vec![setf("segments[0].stop_ptr".into(), pe + models::pow2(64))], false));
            let (eb, ee) = (getf("segments[1].begin_addr"), getf("segments[1].stop_ptr"));
            faults.push(("execution:begin=2^64-2".into(), vec![setf("segments[1].begin_addr".into(), models::pow2(64) - Felt::TWO)], false));
            faults.push(("execution:begin=2^63+3,output:2^63".into(), vec![setf("segments[1].begin_addr".into(), models::pow2(63) + Felt::THREE), setf("segments[2].stop_ptr".into(), ob + models::pow2(63))], false));
            faults.push(("execution:begin+2^64".into(), vec![setf("segments[1].begin_addr".into(), eb + models::pow2(64))], false));
            faults.push(("execution:stop+2^64".into(), vec![setf("segments[1].stop_ptr".into(), ee + models::pow2(64))], false));
        }
        faults.push(("range_check_max=0xffff".into(), vec![setf("range_check_max".into(), Felt::from(0xffffu64))], false));
        faults.push(("range_check_max=0x10000".into(), vec![setf("range_check_max".into(), Felt::from(0x10000u64))], false));
        faults.push(("range_check_min=max+1".into(), vec![setf("range_check_min".into(), getf("range_check_max") + Felt::ONE)], false));
        faults.push(("range_check_min=max".into(), vec![setf("range_check_min".into(), getf("range_check_max"))], false));
        let n_seg = pi["segments"].as_array().map(|a| a.len()).unwrap_or(0);
        faults.push(("segments-1".into(), vec![Fault::Delete { path: "segments".into(), index: n_seg - 1 }], false));
        faults.push(("segments+1".into(), vec![Fault::Dup { path: "segments".into(), index: n_seg - 1 }], false));
        {
            let lt: u64 = log_trace.to_biguint().try_into().unwrap();
            let pit: PublicInput = serde_json::from_value(pi.clone()).unwrap();
            if let Some((_, builtins)) = models_full::builtin_capacities(layout, &pit, lt) {
                for (seg, cells, cap) in builtins {
                    let b = getf(&format!("segments[{seg}].begin_addr"));
                    let mut variants: Vec<(&str, Felt)> = vec![("stop=begin+1cell", b + Felt::from(1u64)), ("stop=begin-1", b - Felt::ONE)];
                    if let Some(c) = &cap {
                        let c: u64 = c.try_into().unwrap_or(u64::MAX >> 8);
                        if c >= 1 {
                            variants.push(("stop=begin+1instance", b + Felt::from(cells)));
                        }
                        variants.push(("stop=begin+capacity", b + Felt::from(c * cells)));
                        variants.push(("stop=begin+capacity+1instance", b + Felt::from((c + 1) * cells)));
                        variants.push(("stop=begin+capacity+1cell", b + Felt::from(c * cells + 1)));
                    }
                    for (nm, stop) in variants {
                        faults.push((format!("builtin:{nm}"), vec![setf(format!("segments[{seg}].stop_ptr"), stop)], false));
                    }
                    let e = getf(&format!("segments[{seg}].stop_ptr"));
                    faults.push(("builtin:begin+1".into(), vec![setf(format!("segments[{seg}].begin_addr"), b + Felt::ONE)], false));
                    faults.push(("builtin:stop-1".into(), vec![setf(format!("segments[{seg}].stop_ptr"), e - Felt::ONE)], false));
                }
            }
        }
        // main page: address perturbation of every cell, truncation, reordering, insertion
        let n_cells = pi["main_page"].as_array().map(|a| a.len()).unwrap_or(0);
        for i in 0..n_cells {
            let a = getf(&format!("main_page[{i}].address"));
            faults.push(("page:address+1".into(), vec![setf(format!("main_page[{i}].address"), a + Felt::ONE)], false));
        }
        for k in [1usize, 2, n_cells / 2, n_cells.saturating_sub(1), n_cells] {
            if k <= n_cells && k > 0 {
                faults.push(("page:truncate-tail".into(), vec![Fault::Truncate { path: "main_page".into(), len: n_cells - k }], false));
            }
        }
        faults.push(("page:drop-first".into(), vec![Fault::Delete { path: "main_page".into(), index: 0 }], false));
        for _ in 0..6 {
            let i = rng.usize_below(n_cells - 1);
            faults.push(("page:swap-adjacent".into(), vec![Fault::Swap { path: "main_page".into(), i, j: i + 1 }], false));
            let j = rng.usize_below(n_cells);
            faults.push(("page:delete-cell".into(), vec![Fault::Delete { path: "main_page".into(), index: j }], false));
            faults.push(("page:duplicate-cell".into(), vec![Fault::Dup { path: "main_page".into(), index: j }], false));
        }
        // constructed-valid variants: output emptied / extended consistently
        {
            let ob = getf("segments[2].begin_addr");
            let oe = getf("segments[2].stop_ptr");
            let o_len: u64 = (oe - ob).to_biguint().try_into().unwrap_or(0);
            if (o_len as usize) <= n_cells {
                faults.push((
                    "valid:output-emptied".into(),
                    vec![setf("segments[2].stop_ptr".into(), ob), Fault::Truncate { path: "main_page".into(), len: n_cells - o_len as usize }],
                    true,
                ));
                if o_len >= 2 {
                    faults.push((
                        "valid:output-shortened".into(),
                        vec![setf("segments[2].stop_ptr".into(), oe - Felt::ONE), Fault::Truncate { path: "main_page".into(), len: n_cells - 1 }],
                        true,
                    ));
                }
            }
        }
        // ---- run ---------------------------------------------------------------------------
        for (kind, fl, constructed_valid) in faults {
            let img = if fl.is_empty() { Some(pi.clone()) } else { proofrun::apply_faults(pi, &fl) };
            let Some(img) = img else {
                ctx.stats.skip("noop");
                continue;
            };
            let Ok(pit) = serde_json::from_value::<PublicInput>(img) else {
                ctx.stats.skip("illtyped");
                continue;
            };
            ctx.stats.fired(kind.split(':').next().unwrap());
            // validation
            let vo = validate_entry(layout, &pit, log_trace, log_cosets);
            ctx.stats.evaluations += 1;
            let model = models_full::ref_validate_public_input(&pit, layout, &log_trace);
            ctx.stats.state(format!("{layout}|validate|{kind}|{}|{}", match &model { Verdict3::MustAccept => "valid", Verdict3::MustReject(_) => "invalid", Verdict3::NotStated(_) => "not-stated" }, vo.class()));
            let is_page_fault = kind.starts_with("page:") || kind.starts_with("valid:");
            match (&model, &vo) {
                (Verdict3::MustReject(why), o) if o.is_accept() => {
                    ctx.violation(&format!("C14|validate-accepts-invalid|{}", kind.split(['+', '-', '=']).next().unwrap()), &format!("{name} ({layout}) with {kind}: accepted although {why}"), mk(ctx, &fl, "validate_public_input", o));
                }
                (Verdict3::MustAccept, o) if !o.is_accept() && !is_page_fault => {
                    ctx.violation(&format!("C14|validate-rejects-valid|{}", o.class()), &format!("{name} ({layout}) with {kind}: {} although every stated clause holds", o.describe()), mk(ctx, &fl, "validate_public_input", o));
                }
                (_, o) if kind == "none" && !o.is_accept() => {
                    ctx.violation(&format!("C14|validate-rejects-valid|{}", o.class()), &format!("{name} ({layout}): recorded public input rejected: {}", o.describe()), mk(ctx, &fl, "validate_public_input", o));
                }
                _ => {}
            }
            // returned hashes
            let ho = verify_pi_entry(layout, &pit);
            ctx.stats.evaluations += 1;
            let want = models_full::ref_program_output(&pit);
            ctx.stats.state(format!("{layout}|hashes|{kind}|{}|{}", match &want { Hashes3::Pair(..) => "pair", Hashes3::MustReject(_) => "must-reject", Hashes3::NotStated(_) => "not-stated" }, ho.class().split('(').next().unwrap()));
            match (&want, &ho) {
                (Hashes3::MustReject(why), o) if !o.is_reject() => {
                    let what = if o.is_accept() { "positional-hash" } else { "crash" };
                    ctx.violation(&format!("C14|{what}|{}", kind), &format!("{name} ({layout}) with {kind}: {} although {why}", o.describe()), mk(ctx, &fl, "verify_public_input", o));
                }
                (Hashes3::Pair(p, o2), Outcome::Accept(got)) => {
                    if *got != format!("{:?}", (p, o2)) {
                        ctx.violation("C14|wrong-hashes", &format!("{name} ({layout}) with {kind}: returned {got}, address-based chains give {:?}", (p, o2)), mk(ctx, &fl, "verify_public_input", &ho));
                    }
                }
                (Hashes3::Pair(..), o) if constructed_valid => {
                    ctx.violation(&format!("C14|valid-page-rejected|{kind}"), &format!("{name} ({layout}) with {kind}: {} although program and output cells sit at the right addresses", o.describe()), mk(ctx, &fl, "verify_public_input", o));
                }
                _ => {}
            }
            if ctx.stats.samples.len() < 4 && kind != "none" {
                ctx.stats.sample(json!({"file": name, "layout": layout, "fault": kind, "validate": vo.class(), "hashes": ho.class()}));
            }
        }
    }
}

pub fn replay(rep: &Value) -> Result<(bool, String), String> {
    match rep["call"].as_str() {
        Some("digest") => {
            let pi = &rep["public_input"];
            let nvf = Felt::from_hex(rep["n_friendly"].as_str().ok_or("n_friendly")?).map_err(|e| format!("{e:?}"))?;
            let faults: Vec<Fault> = serde_json::from_value(rep["faults"].clone()).map_err(|e| e.to_string())?;
            let d0 = digest_of(pi, nvf).and_then(|x| x.1).ok_or("base digest failed")?;
            match rep["oracle"].as_str() {
                Some("unbound") => {
                    let img = proofrun::apply_faults(pi, &faults).ok_or("faults do not apply")?;
                    let d1 = digest_of(&img, nvf).and_then(|x| x.1);
                    Ok((d1 == Some(d0), format!("base {:#x} faulted {:?}", d0, d1.map(|d| format!("{d:#x}")))))
                }
                Some("unbound-nvf") => {
                    let d1 = digest_of(pi, nvf + Felt::ONE).and_then(|x| x.1);
                    Ok((d1 == Some(d0), format!("base {:#x}", d0)))
                }
                Some("model-mismatch") => {
                    let pit: PublicInput = serde_json::from_value(pi.clone()).map_err(|e| e.to_string())?;
                    let w = models_full::ref_digest(&pit, nvf);
                    Ok((w != d0, format!("get_hash {:#x} model {:#x}", d0, w)))
                }
                o => Err(format!("oracle {o:?} is not replayable on its own")),
            }
        }
        Some("public_input") => {
            let l = stone_loader::load_file(rep["file"].as_str().ok_or("file")?)?;
            let layout = rep["layout"].as_str().ok_or("layout")?;
            let faults: Vec<Fault> = serde_json::from_value(rep["faults"].clone()).map_err(|e| e.to_string())?;
            let pi = &l.proof["public_input"];
            let img = if faults.is_empty() { pi.clone() } else { proofrun::apply_faults(pi, &faults).ok_or("faults do not apply")? };
            let pit: PublicInput = serde_json::from_value(img).map_err(|e| e.to_string())?;
            let log_trace = image::felt_of(&l.proof["config"]["log_trace_domain_size"]).unwrap();
            let log_cosets = image::felt_of(&l.proof["config"]["log_n_cosets"]).unwrap();
            if rep["entry"].as_str() == Some("validate_public_input") {
                let o = validate_entry(layout, &pit, log_trace, log_cosets);
                let m = models_full::ref_validate_public_input(&pit, layout, &log_trace);
                let bad = matches!((&m, o.is_accept()), (Verdict3::MustReject(_), true) | (Verdict3::MustAccept, false));
                Ok((bad || (faults.is_empty() && !o.is_accept()), o.describe()))
            } else {
                let o = verify_pi_entry(layout, &pit);
                let w = models_full::ref_program_output(&pit);
                let bad = match (&w, &o) {
                    (Hashes3::MustReject(_), o) => !o.is_reject(),
                    (Hashes3::Pair(p, q), Outcome::Accept(got)) => *got != format!("{:?}", (p, q)),
                    (Hashes3::Pair(..), _) => true,
                    _ => false,
                };
                Ok((bad, o.describe()))
            }
        }
        c => Err(format!("unknown call {c:?}")),
    }
}

#[allow(dead_code)]
fn unused() {
    let _ = models::pow2(1);
}
