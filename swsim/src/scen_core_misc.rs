//! C08 (object level: transcript operation histories), C09 (proof of work), model self-tests.
use super::hexf;
use crate::common::{replay_envelope, Ctx};
use crate::models::{self, RefTranscript};
use crate::monitor::{self, Outcome};
use crate::rng::Rng;
use serde::{Deserialize, Serialize};
use serde_json::{json, Value};
use starknet_crypto::Felt;
use swiftness_transcript::transcript::Transcript;

// ------------------------------------------------------------------------------------------
// C08: histories
// ------------------------------------------------------------------------------------------

#[derive(Debug, Clone, PartialEq, Serialize, Deserialize)]
#[serde(tag = "op")]
pub enum Op {
    Felt { v: String },
    Vec { vs: Vec<String> },
    U64 { x: u64 },
    Squeeze,
    SqueezeMany { n: u64 },
}

fn fh(s: &str) -> Felt {
    Felt::from_hex(s).expect("hex")
}

impl Op {
    fn is_absorb(&self) -> bool {
        matches!(self, Op::Felt { .. } | Op::Vec { .. } | Op::U64 { .. })
    }
}

/// Executes a history on the real transcript; returns the squeeze outputs grouped per op index,
/// and (digest, counter) after each op.
fn run_real(seed: Felt, ops: &[Op]) -> (Vec<(usize, Felt)>, Vec<(Felt, Felt)>) {
    let mut t = Transcript::new(seed);
    let mut outs = Vec::new();
    let mut states = Vec::new();
    for (i, op) in ops.iter().enumerate() {
        match op {
            Op::Felt { v } => t.read_felt_from_prover(&fh(v)),
            Op::Vec { vs } => {
                let v: Vec<Felt> = vs.iter().map(|s| fh(s)).collect();
                t.read_felt_vector_from_prover(&v)
            }
            Op::U64 { x } => t.read_uint64_from_prover(*x),
            Op::Squeeze => outs.push((i, t.random_felt_to_prover())),
            Op::SqueezeMany { n } => {
                for o in t.random_felts_to_prover(Felt::from(*n)) {
                    outs.push((i, o));
                }
            }
        }
        states.push((*t.digest(), *t.counter()));
    }
    (outs, states)
}

fn run_model(seed: Felt, ops: &[Op]) -> (Vec<(usize, Felt)>, Vec<(Felt, Felt)>) {
    let mut t = RefTranscript::new(seed);
    let mut outs = Vec::new();
    let mut states = Vec::new();
    for (i, op) in ops.iter().enumerate() {
        match op {
            Op::Felt { v } => t.absorb(&[fh(v)]),
            Op::Vec { vs } => {
                let v: Vec<Felt> = vs.iter().map(|s| fh(s)).collect();
                t.absorb(&v)
            }
            Op::U64 { x } => t.absorb_u64(*x),
            Op::Squeeze => outs.push((i, t.squeeze())),
            Op::SqueezeMany { n } => {
                for _ in 0..*n {
                    outs.push((i, t.squeeze()));
                }
            }
        }
        states.push((t.digest, Felt::from(t.counter)));
    }
    (outs, states)
}

/// The history oracle. Returns Err(description) on the first violated clause.
/// `faulted`: (faulted ops, index in `ops` of the first op that differs, index in faulted ops
/// from which positions correspond again = (i_base, i_faulted) of the first common suffix op).
fn history_oracle(seed: Felt, ops: &[Op], faulted: Option<(&[Op], usize, (usize, usize))>) -> Result<u64, String> {
    let (real, rstates) = run_real(seed, ops);
    let (model, mstates) = run_model(seed, ops);
    if real != model {
        let i = real.iter().zip(model.iter()).position(|(a, b)| a != b).unwrap_or(real.len().min(model.len()));
        return Err(format!("model-mismatch: squeeze #{i} differs from the reference sponge"));
    }
    if rstates != mstates {
        let i = rstates.iter().zip(mstates.iter()).position(|(a, b)| a != b).unwrap();
        return Err(format!("model-mismatch: (digest, counter) after op {i} differs from the reference sponge"));
    }
    // determinism
    if run_real(seed, ops).0 != real {
        return Err("nondeterministic: same history, different challenges".into());
    }
    // squeezes without an intervening absorb are pairwise different
    let mut group: Vec<Felt> = Vec::new();
    let mut last_absorb_before = usize::MAX;
    for (i, out) in &real {
        let la = ops[..*i].iter().rposition(|o| o.is_absorb()).map(|x| x + 1).unwrap_or(0);
        if la != last_absorb_before {
            group.clear();
            last_absorb_before = la;
        }
        if group.contains(out) {
            return Err(format!("repeat: two challenges drawn after op {la} with no message in between are equal"));
        }
        group.push(*out);
    }
    let mut checked = real.len() as u64;
    if let Some((fops, first_diff, (suffix_base, suffix_faulted))) = faulted {
        let (freal, _) = run_real(seed, fops);
        // challenges before the changed message are unaffected
        let before: Vec<&(usize, Felt)> = real.iter().filter(|(i, _)| *i < first_diff).collect();
        let fbefore: Vec<&(usize, Felt)> = freal.iter().filter(|(i, _)| *i < first_diff).collect();
        if before != fbefore {
            return Err("prefix: a challenge drawn before the changed message changed".into());
        }
        // every challenge after it differs from the unfaulted one at the corresponding position
        let after: Vec<Felt> = real.iter().filter(|(i, _)| *i >= suffix_base).map(|(_, o)| *o).collect();
        let fafter: Vec<Felt> = freal.iter().filter(|(i, _)| *i >= suffix_faulted).map(|(_, o)| *o).collect();
        if after.len() != fafter.len() {
            return Err("harness: suffix misaligned".into());
        }
        for (k, (a, b)) in after.iter().zip(fafter.iter()).enumerate() {
            if a == b {
                return Err(format!("suffix: challenge #{k} after the changed message did not change"));
            }
            checked += 1;
        }
    }
    Ok(checked)
}

fn draw_history(rng: &mut Rng, len: usize) -> Vec<Op> {
    let mut ops = Vec::new();
    for _ in 0..len {
        ops.push(match rng.below(8) {
            0 | 1 => Op::Felt { v: hexf(&rng.felt()) },
            2 => {
                let n = match rng.below(4) {
                    0 => 0,
                    1 => 1,
                    _ => rng.range(2, 12),
                } as usize;
                Op::Vec { vs: (0..n).map(|_| hexf(&rng.felt())).collect() }
            }
            3 => Op::U64 { x: if rng.chance(1, 4) { rng.below(4) } else { rng.next_u64() } },
            4 => Op::SqueezeMany { n: rng.range(0, 5) },
            _ => Op::Squeeze,
        });
    }
    // always end with a few squeezes so that every message has a later challenge
    ops.push(Op::Squeeze);
    ops.push(Op::SqueezeMany { n: 2 });
    ops
}

/// One history fault: returns (kind, faulted ops, first differing op, (suffix start base, faulted)).
fn history_fault(rng: &mut Rng, ops: &[Op]) -> Option<(String, Vec<Op>, usize, (usize, usize))> {
    let absorbs: Vec<usize> = ops.iter().enumerate().filter(|(_, o)| o.is_absorb()).map(|(i, _)| i).collect();
    if absorbs.is_empty() {
        return None;
    }
    let i = *rng.pick(&absorbs);
    let mut f = ops.to_vec();
    match rng.below(5) {
        0 => {
            // corrupt message i
            match &mut f[i] {
                Op::Felt { v } => *v = hexf(&(fh(v) + Felt::ONE)),
                Op::U64 { x } => *x = x.wrapping_add(1),
                Op::Vec { vs } => {
                    if vs.is_empty() {
                        vs.push("0x0".into());
                    } else {
                        let j = rng.usize_below(vs.len());
                        vs[j] = hexf(&(fh(&vs[j]) + Felt::ONE));
                    }
                }
                _ => unreachable!(),
            }
            Some(("corrupt".into(), f, i, (i + 1, i + 1)))
        }
        1 => {
            // delete one element of a vector message
            if let Op::Vec { vs } = &mut f[i] {
                if vs.is_empty() {
                    return None;
                }
                let j = rng.usize_below(vs.len());
                vs.remove(j);
                Some(("delete-element".into(), f, i, (i + 1, i + 1)))
            } else {
                None
            }
        }
        2 => {
            // re-split a vector [a, b, ..] into a, then [b, ..]
            if let Op::Vec { vs } = &ops[i] {
                if vs.len() < 2 {
                    return None;
                }
                let k = rng.range(1, vs.len() as u64 - 1) as usize;
                f[i] = Op::Vec { vs: vs[..k].to_vec() };
                f.insert(i + 1, Op::Vec { vs: vs[k..].to_vec() });
                Some(("resplit".into(), f, i, (i + 1, i + 2)))
            } else {
                None
            }
        }
        3 => {
            // reorder message i with the next absorb, if adjacent and different
            if i + 1 < ops.len() && ops[i + 1].is_absorb() && ops[i] != ops[i + 1] {
                // [x] then [y] equals [y] then [x] only if x == y (as messages)
                f.swap(i, i + 1);
                Some(("reorder".into(), f, i, (i + 2, i + 2)))
            } else {
                None
            }
        }
        _ => {
            // drop the whole message
            f.remove(i);
            Some(("drop-message".into(), f, i, (i + 1, i)))
        }
    }
}

pub fn c08(ctx: &mut Ctx) {
    let scenario = "core.c08";
    let n_hist: u64 = if ctx.is_quick() { 6_000 } else { 100_000 };
    for k in 0..n_hist {
        if !ctx.mine(k) {
            continue;
        }
        ctx.begin_run(scenario, k);
        let mut rng = Rng::derive(ctx.seed, scenario, k);
        let len = if rng.chance(1, 10) { rng.range(50, 200) } else { rng.range(1, 30) } as usize;
        let seed = if rng.chance(1, 8) { Felt::ZERO - Felt::ONE } else { rng.felt() };
        let ops = draw_history(&mut rng, len);
        ctx.stats.evaluations += 1;
        ctx.stats.messages_delivered += ops.iter().filter(|o| o.is_absorb()).count() as u64;
        let shape = format!("len{}|abs{}", (ops.len() / 10).min(9), ops.iter().filter(|o| o.is_absorb()).count().min(9));
        let mk = |ctx: &Ctx, ops: &[Op], faulted: Option<&(String, Vec<Op>, usize, (usize, usize))>| {
            replay_envelope("C08", scenario, &ctx.variant, json!({
                "call": "transcript", "seed_digest": hexf(&seed), "ops": ops,
                "fault": faulted.map(|f| json!({"kind": f.0, "ops": f.1, "first_diff": f.2, "suffix": [f.3 .0, f.3 .1]})),
                "expect": "oracle-holds"}))
        };
        match history_oracle(seed, &ops, None) {
            Ok(n) => ctx.stats.probe_n("challenges-compared-with-model", n),
            Err(e) => {
                let class = format!("C08|{}", e.split(':').next().unwrap_or("?"));
                let rep = mk(ctx, &ops, None);
                ctx.violation(&class, &e, rep);
                continue;
            }
        }
        ctx.stats.state(format!("{shape}|none"));
        if ctx.stats.samples.len() < 2 {
            ctx.stats.sample(json!({"seed_digest": hexf(&seed), "ops": ops.iter().take(8).collect::<Vec<_>>()}));
        }
        for _ in 0..4 {
            let Some(f) = history_fault(&mut rng, &ops) else { continue };
            ctx.stats.evaluations += 1;
            ctx.stats.fired(&f.0);
            ctx.stats.state(format!("{shape}|{}", f.0));
            if let Err(e) = history_oracle(seed, &ops, Some((&f.1, f.2, f.3))) {
                let class = format!("C08|{}|{}", e.split(':').next().unwrap_or("?"), f.0);
                let rep = mk(ctx, &ops, Some(&f));
                ctx.violation(&class, &format!("{e} (fault {} at op {})", f.0, f.2), rep);
            }
        }
    }
}

// ------------------------------------------------------------------------------------------
// C09: proof of work
// ------------------------------------------------------------------------------------------

fn real_pow(digest: [u8; 32], n_bits: u8, nonce: u64) -> Outcome {
    monitor::guarded(1_000_000, || swiftness_pow::pow::verify_pow(digest, n_bits, nonce)).outcome
}

pub fn c09(ctx: &mut Ctx) {
    let scenario = "core.c09";
    for p in ["pow.leading-zeros-exactly-at-threshold", "pow.one-bit-short"] {
        ctx.stats.declare_probe(p);
    }
    // (a) configuration bounds: exhaustive over u8
    if ctx.mine(0) {
        for n in 0u16..=255 {
            let cfg = swiftness_pow::config::Config { n_bits: n as u8 };
            let o = monitor::guarded(1000, || cfg.validate()).outcome;
            ctx.stats.evaluations += 1;
            let want = (20..=50).contains(&n);
            ctx.stats.state(format!("config|{}|{}", if want { "in" } else { "out" }, o.class()));
            if o.is_accept() != want {
                let rep = replay_envelope("C09", scenario, &ctx.variant, json!({"call": "pow_config", "n_bits": n, "expect": if want { "ok" } else { "not_ok" }}));
                ctx.violation("C09|config-bounds", &format!("pow::Config::validate(n_bits={n}) = {}, expected {}", o.class(), if want { "Ok" } else { "Err" }), rep);
            }
        }
    }
    // difficulties above 32 bits cannot be ground inside a check: a committed table of solutions
    // (produced once with `swsim grind-pow`, each re-validated here by the reference model) covers
    // the part of the admitted range 20..=50 in which a 32-bit shortcut would stop working
    if ctx.mine(0) {
        ctx.stats.declare_probe("pow.pre-ground-solution-above-32-bits");
        let table: Value = serde_json::from_str(include_str!("../../pow_solutions.json")).unwrap_or_else(|e| ctx.harness_error(&format!("pow_solutions.json: {e}")));
        for e in table["solutions"].as_array().cloned().unwrap_or_default() {
            if e["hash"].as_str() != Some(models::pow_hash_kind()) {
                continue;
            }
            let (Some(digest_f), Some(n_bits), Some(nonce)) = (e["digest"].as_str().and_then(|h| Felt::from_hex(h).ok()), e["n_bits"].as_u64(), e["nonce"].as_u64()) else {
                ctx.harness_error(&format!("pow_solutions.json: malformed entry {e}"))
            };
            let digest = digest_f.to_bytes_be();
            if !models::pow_valid(&digest, n_bits as u8, nonce) {
                ctx.harness_error(&format!("pow_solutions.json: entry {e} is not a solution under the reference model"));
            }
            if n_bits > 32 {
                ctx.stats.probe("pow.pre-ground-solution-above-32-bits");
            }
            // the solution itself, and its neighbours in nonce and difficulty (model decides)
            for (nb, nn) in [(n_bits as u8, nonce), (n_bits as u8, nonce ^ 1), (n_bits as u8 + 1, nonce), (n_bits as u8 - 1, nonce)] {
                let want = models::pow_valid(&digest, nb, nn);
                let o = real_pow(digest, nb, nn);
                ctx.stats.evaluations += 1;
                ctx.stats.state(format!("pre-ground|bits{}|{}|{}", nb / 16, if want { "valid" } else { "invalid" }, o.class()));
                if o.is_accept() != want {
                    let rep = replay_envelope("C09", scenario, &ctx.variant, json!({"call": "pow_verify", "digest": hexf(&digest_f), "n_bits": nb, "nonce": nn, "expect": if want { "ok" } else { "not_ok" }, "expected_outcome": o.describe()}));
                    ctx.violation(&format!("C09|verdict|{}", if want { "valid-rejected" } else { "invalid-accepted" }), &format!("verify_pow(digest={}, n_bits={nb}, nonce={nn}) = {} but the reference model says {}", hexf(&digest_f), o.class(), if want { "valid" } else { "invalid" }), rep);
                }
            }
        }
    }
    let n_inst: u64 = if ctx.is_quick() { 4_000 } else { 60_000 };
    let max_grind = if ctx.is_quick() { 16 } else { 21 };
    for k in 1..=n_inst {
        if !ctx.mine(k) {
            continue;
        }
        ctx.begin_run(scenario, k);
        let mut rng = Rng::derive(ctx.seed, scenario, k);
        let digest_f = rng.felt();
        let digest = digest_f.to_bytes_be();
        // prover kinds: honest grinder / Byzantine arbitrary nonce / structured nonces
        let (kind, declared_bits, nonce) = match rng.below(4) {
            0 | 1 => {
                let bits = rng.range(0, max_grind) as u8;
                ("honest-grind", bits, models::pow_grind(&digest, bits, rng.next_u64() >> 1))
            }
            2 => ("byzantine-random", rng.range(0, 60) as u8, rng.next_u64()),
            _ => ("byzantine-structured", rng.range(0, 60) as u8, *rng.pick(&[0u64, 1, u64::MAX, 1 << 32, (1 << 32) - 1, 0x0123456789abcded])),
        };
        ctx.stats.fired(kind);
        // sweep the difficulty over 0..=128: the accept/reject threshold is lz(hash(n_bits)) per
        // difficulty (the difficulty is part of the preimage), both sides get hit
        let mut sweep: Vec<u8> = vec![declared_bits, 0, 1, 7, 8, 9, 127, 128];
        for _ in 0..6 {
            sweep.push(rng.range(0, 128) as u8);
        }
        if !ctx.is_quick() {
            sweep = (0..=128).collect();
            sweep.push(declared_bits);
        }
        for n_bits in sweep {
            let want = models::pow_valid(&digest, n_bits, nonce);
            let lz = models::leading_zero_bits(&models::pow_hash(&digest, n_bits, nonce));
            if lz == n_bits as u32 {
                ctx.stats.probe("pow.leading-zeros-exactly-at-threshold");
            }
            if lz + 1 == n_bits as u32 {
                ctx.stats.probe("pow.one-bit-short");
            }
            let o = real_pow(digest, n_bits, nonce);
            ctx.stats.evaluations += 1;
            ctx.stats.state(format!("{kind}|bits{}|{}|{}", n_bits / 16, if want { "valid" } else { "invalid" }, o.class()));
            if o.is_accept() != want {
                let rep = replay_envelope("C09", scenario, &ctx.variant, json!({"call": "pow_verify", "digest": hexf(&digest_f), "n_bits": n_bits, "nonce": nonce, "expect": if want { "ok" } else { "not_ok" }, "expected_outcome": o.describe()}));
                ctx.violation(&format!("C09|verdict|{}", if want { "valid-rejected" } else { "invalid-accepted" }), &format!("verify_pow(digest={}, n_bits={n_bits}, nonce={nonce}) = {} but the hash has {lz} leading zero bits", hexf(&digest_f), o.class()), rep);
            }
        }
        if ctx.stats.samples.len() < 3 {
            ctx.stats.sample(json!({"kind": kind, "digest": hexf(&digest_f), "n_bits": declared_bits, "nonce": nonce}));
        }
        // commit(): on Ok the nonce is absorbed (state = reference sponge after absorbing it)
        let want = models::pow_valid(&digest, declared_bits, nonce);
        let mut t = Transcript::new_with_counter(digest_f, Felt::from(rng.below(5)));
        let uc = swiftness_pow::pow::UnsentCommitment { nonce };
        let cfg = swiftness_pow::config::Config { n_bits: declared_bits };
        let res = uc.commit(&mut t, &cfg);
        ctx.stats.evaluations += 1;
        let mut m = RefTranscript::new(digest_f);
        m.absorb_u64(nonce);
        let problem = if res.is_ok() != want {
            Some("commit verdict differs from the reference model".to_string())
        } else if res.is_ok() && (*t.digest() != m.digest || *t.counter() != Felt::ZERO) {
            Some("after Ok the transcript is not the state reached by absorbing the nonce".to_string())
        } else {
            None
        };
        if let Some(p) = problem {
            let rep = replay_envelope("C09", scenario, &ctx.variant, json!({"call": "pow_commit", "digest": hexf(&digest_f), "n_bits": declared_bits, "nonce": nonce, "expect": "commit-oracle"}));
            ctx.violation("C09|commit", &format!("{p}: digest={} n_bits={declared_bits} nonce={nonce}", hexf(&digest_f)), rep);
        }
    }
}

// ------------------------------------------------------------------------------------------
// model self-tests
// ------------------------------------------------------------------------------------------

pub fn selftest_models(ctx: &mut Ctx) {
    let mut rng = Rng::new(7);
    // subgroup generator orders
    for k in 0..=20u32 {
        let g = models::subgroup_generator(k);
        if g.pow(1u128 << k) != Felt::ONE || (k > 0 && g.pow(1u128 << (k - 1)) == Felt::ONE) {
            ctx.harness_error(&format!("subgroup_generator({k}) has the wrong order"));
        }
    }
    // NTT against naive evaluation
    for log_n in 0..=6u32 {
        let coeffs: Vec<Felt> = (0..(1usize << log_n)).map(|_| rng.felt()).collect();
        let ev = models::evaluate_bitrev(&coeffs, log_n);
        let w = models::subgroup_generator(log_n);
        for (i, e) in ev.iter().enumerate() {
            let x = w.pow(models::bitrev(i as u64, log_n) as u128);
            if models::eval_poly(&coeffs, x) != *e {
                ctx.harness_error("evaluate_bitrev disagrees with Horner evaluation");
            }
        }
    }
    // fold in coefficient space agrees with the evaluation-space definition for k = 1
    let c: Vec<Felt> = (0..16).map(|_| rng.felt()).collect();
    let b = rng.felt();
    let folded = models::fold_coeffs(&c, 1, b);
    let u = rng.felt_nonzero();
    let fx = models::eval_poly(&c, u);
    let fmx = models::eval_poly(&c, Felt::ZERO - u);
    let lhs = fx + fmx + b * models::inv(u) * (fx - fmx);
    if lhs != models::eval_poly(&folded, u * u) {
        ctx.harness_error("fold_coeffs disagrees with f(x)+f(-x)+b/x(f(x)-f(-x))");
    }
    ctx.stats.evaluations += 3;
    ctx.stats.state("selftest|ok".into());
    ctx.stats.state("selftest|ntt".into());
}

pub fn replay(rep: &Value) -> Result<(bool, String), String> {
    match rep["call"].as_str() {
        Some("transcript") => {
            let seed = fh(rep["seed_digest"].as_str().ok_or("seed_digest")?);
            let ops: Vec<Op> = serde_json::from_value(rep["ops"].clone()).map_err(|e| e.to_string())?;
            let r = if rep["fault"].is_null() {
                history_oracle(seed, &ops, None)
            } else {
                let f = &rep["fault"];
                let fops: Vec<Op> = serde_json::from_value(f["ops"].clone()).map_err(|e| e.to_string())?;
                let fd = f["first_diff"].as_u64().ok_or("first_diff")? as usize;
                let s = (f["suffix"][0].as_u64().ok_or("suffix")? as usize, f["suffix"][1].as_u64().ok_or("suffix")? as usize);
                history_oracle(seed, &ops, Some((&fops, fd, s)))
            };
            Ok(match r {
                Ok(_) => (false, "oracle holds".into()),
                Err(e) => (true, e),
            })
        }
        Some("pow_verify") => {
            let d = fh(rep["digest"].as_str().ok_or("digest")?).to_bytes_be();
            let n_bits = rep["n_bits"].as_u64().ok_or("n_bits")? as u8;
            let nonce = rep["nonce"].as_u64().ok_or("nonce")?;
            let o = real_pow(d, n_bits, nonce);
            let want = models::pow_valid(&d, n_bits, nonce);
            Ok((o.is_accept() != want, o.describe()))
        }
        Some("pow_config") => {
            let n = rep["n_bits"].as_u64().ok_or("n_bits")?;
            let o = monitor::guarded(1000, || swiftness_pow::config::Config { n_bits: n as u8 }.validate()).outcome;
            Ok((o.is_accept() != (20..=50).contains(&n), o.describe()))
        }
        Some("pow_commit") => {
            let df = fh(rep["digest"].as_str().ok_or("digest")?);
            let n_bits = rep["n_bits"].as_u64().ok_or("n_bits")? as u8;
            let nonce = rep["nonce"].as_u64().ok_or("nonce")?;
            let mut t = Transcript::new(df);
            let res = swiftness_pow::pow::UnsentCommitment { nonce }.commit(&mut t, &swiftness_pow::config::Config { n_bits });
            let want = models::pow_valid(&df.to_bytes_be(), n_bits, nonce);
            let mut m = RefTranscript::new(df);
            m.absorb_u64(nonce);
            let bad = res.is_ok() != want || (res.is_ok() && (*t.digest() != m.digest || *t.counter() != Felt::ZERO));
            Ok((bad, format!("{res:?}")))
        }
        c => Err(format!("unknown call {c:?}")),
    }
}
