//! The other public entry points named by C18/C11/C14, taken alone, with layout dispatch.
use crate::monitor::{self, Run};
use starknet_crypto::Felt;
use swiftness_air::domains::StarkDomains;
use swiftness_air::layout::{GenericLayoutTrait, LayoutTrait};
use swiftness_stark::types::StarkProof;

#[macro_export]
macro_rules! with_layout {
    ($name:expr, $f:ident, $($arg:expr),*) => {{
        use swiftness_air::layout as l;
        match $name {
            "dex" => $f::<l::dex::Layout>($($arg),*),
            "dynamic" => $f::<l::dynamic::Layout>($($arg),*),
            "recursive" => $f::<l::recursive::Layout>($($arg),*),
            "recursive_with_poseidon" => $f::<l::recursive_with_poseidon::Layout>($($arg),*),
            "small" => $f::<l::small::Layout>($($arg),*),
            "starknet" => $f::<l::starknet::Layout>($($arg),*),
            "starknet_with_keccak" => $f::<l::starknet_with_keccak::Layout>($($arg),*),
            "toy" => $f::<$crate::toy::ToyLayout>($($arg),*),
            other => panic!("harness: unknown layout {other}"),
        }
    }};
}

fn entry_generic<L: LayoutTrait + GenericLayoutTrait>(ep: &str, proof: &StarkProof, security: Felt) -> Run {
    match ep {
        "config.validate" => monitor::guarded(u64::MAX, || {
            let c1 = L::get_num_columns_first(&proof.public_input).ok_or("ColumnMissing")
                .map_err(|e| e.to_string())?;
            let c2 = L::get_num_columns_second(&proof.public_input).ok_or("ColumnMissing")
                .map_err(|e| e.to_string())?;
            proof.config.validate(security, c1.into(), c2.into()).map_err(|e| format!("{e:?}"))
        }),
        "validate_public_input" => monitor::guarded(u64::MAX, || {
            let d = StarkDomains::new(proof.config.log_trace_domain_size, proof.config.log_n_cosets);
            L::validate_public_input(&proof.public_input, &d)
        }),
        "verify_public_input" => monitor::guarded(u64::MAX, || L::verify_public_input(&proof.public_input)),
        other => panic!("harness: unknown entry point {other}"),
    }
}

pub fn run_entry(ep: &str, layout: &str, proof: &StarkProof, security: Felt) -> Run {
    with_layout!(layout, entry_generic, ep, proof, security)
}
