//! Worker context, statistics and the line protocol spoken to the `check` driver.
use serde_json::{json, Value};
use std::collections::{BTreeMap, BTreeSet};
use std::io::Write;

#[derive(Clone, Copy, PartialEq, Eq, Debug)]
pub enum Tier {
    Quick,
    Thorough,
}

pub struct Ctx {
    pub property: String,
    pub seed: u64,
    pub tier: Tier,
    pub worker: u64,
    pub n_workers: u64,
    pub variant: String,
    /// optional cap on work units (for smoke tests)
    pub max_units: Option<u64>,
    pub stats: Stats,
    pub violation_classes: BTreeSet<String>,
    pub start: std::time::Instant,
}

#[derive(Default)]
pub struct Stats {
    pub evaluations: u64,
    pub faults_fired: BTreeMap<String, u64>,
    pub outcomes: BTreeMap<String, u64>,
    pub states: BTreeSet<String>,
    pub probes: BTreeMap<String, u64>,
    pub samples: Vec<Value>,
    pub messages_delivered: u64,
    pub ticks_total: u64,
    pub skipped: BTreeMap<String, u64>,
    pub extra: BTreeMap<String, Value>,
}

impl Stats {
    pub fn fired(&mut self, kind: &str) {
        *self.faults_fired.entry(kind.to_string()).or_insert(0) += 1;
    }
    pub fn outcome(&mut self, class: &str) {
        *self.outcomes.entry(class.to_string()).or_insert(0) += 1;
    }
    pub fn probe(&mut self, name: &str) {
        *self.probes.entry(name.to_string()).or_insert(0) += 1;
    }
    pub fn probe_n(&mut self, name: &str, n: u64) {
        *self.probes.entry(name.to_string()).or_insert(0) += n;
    }
    pub fn declare_probe(&mut self, name: &str) {
        self.probes.entry(name.to_string()).or_insert(0);
    }
    pub fn skip(&mut self, why: &str) {
        *self.skipped.entry(why.to_string()).or_insert(0) += 1;
    }
    pub fn state(&mut self, s: String) {
        self.states.insert(s);
    }
    pub fn sample(&mut self, v: Value) {
        if self.samples.len() < 6 {
            self.samples.push(v);
        }
    }
}

impl Ctx {
    pub fn mine(&self, k: u64) -> bool {
        if let Some(m) = self.max_units {
            if k >= m {
                return false;
            }
        }
        k % self.n_workers == self.worker
    }
    /// Marks the start of run `k` (the driver attributes a worker death to the last one).
    pub fn begin_run(&self, scenario: &str, k: u64) {
        {
            let mut e = std::io::stderr().lock();
            let _ = writeln!(e, "@run {scenario} {k}");
        }
        crate::common::watchdog_kick();
    }
    pub fn is_quick(&self) -> bool {
        self.tier == Tier::Quick
    }
    /// Reports a violation. `class` identifies the failing call site / input class; only the
    /// first violation of a class carries a (minimised) replay, later ones are counted.
    pub fn violation(&mut self, class: &str, detail: &str, replay: Value) {
        let first = self.violation_classes.insert(class.to_string());
        let line = json!({
            "t": "violation",
            "property": self.property,
            "class": class,
            "detail": detail,
            "first": first,
            "replay": if first { replay } else { Value::Null },
        });
        let mut o = std::io::stdout().lock();
        let _ = writeln!(o, "{line}");
    }
    pub fn seen_class(&self, class: &str) -> bool {
        self.violation_classes.contains(class)
    }
    pub fn harness_error(&self, msg: &str) -> ! {
        let mut o = std::io::stdout().lock();
        let _ = writeln!(o, "{}", json!({"t": "harness_error", "msg": msg}));
        let _ = o.flush();
        std::process::exit(2);
    }
    pub fn finish(&mut self) {
        let s = &self.stats;
        let line = json!({
            "t": "stats",
            "property": self.property,
            "variant": self.variant,
            "worker": self.worker,
            "evaluations": s.evaluations,
            "faults_fired": s.faults_fired,
            "outcomes": s.outcomes,
            "states": s.states,
            "probes": s.probes,
            "samples": s.samples,
            "messages_delivered": s.messages_delivered,
            "ticks_total": s.ticks_total,
            "skipped": s.skipped,
            "extra": s.extra,
            "wall_s": self.start.elapsed().as_secs_f64(),
        });
        let mut o = std::io::stdout().lock();
        let _ = writeln!(o, "{line}");
        let _ = o.flush();
    }
}

/// Replay envelope shared by all scenarios.
pub fn replay_envelope(property: &str, scenario: &str, variant: &str, body: Value) -> Value {
    let mut v = json!({
        "property": property,
        "scenario": scenario,
        "variant": variant,
    });
    if let (Some(m), Some(b)) = (v.as_object_mut(), body.as_object()) {
        for (k, x) in b {
            m.insert(k.clone(), x.clone());
        }
    }
    v
}


// ------------------------------------------------------------------------------------------
// wall-clock watchdog (backstop only): a run that neither finishes nor ticks for a long time is a
// hang; the process exits with code 99 so the driver can attribute it to the announced run.
// ------------------------------------------------------------------------------------------
use std::sync::atomic::{AtomicU64, Ordering};
static LAST_KICK_MS: AtomicU64 = AtomicU64::new(0);
static WATCHDOG_LIMIT_MS: AtomicU64 = AtomicU64::new(0);

fn now_ms() -> u64 {
    use std::time::{SystemTime, UNIX_EPOCH};
    SystemTime::now().duration_since(UNIX_EPOCH).map(|d| d.as_millis() as u64).unwrap_or(0)
}

pub fn watchdog_kick() {
    LAST_KICK_MS.store(now_ms(), Ordering::Relaxed);
}

/// Starts the watchdog: if more than `limit_s` seconds pass between two run announcements the
/// process exits with status 99. The limit is far above any honest run (prover + verifier of the
/// largest base take seconds); it decides nothing unless a run hangs.
pub fn watchdog_start(limit_s: u64) {
    WATCHDOG_LIMIT_MS.store(limit_s * 1000, Ordering::Relaxed);
    watchdog_kick();
    std::thread::spawn(|| loop {
        std::thread::sleep(std::time::Duration::from_millis(500));
        let last = LAST_KICK_MS.load(Ordering::Relaxed);
        let lim = WATCHDOG_LIMIT_MS.load(Ordering::Relaxed);
        if lim > 0 && now_ms().saturating_sub(last) > lim {
            eprintln!("@hang no progress for {} s", lim / 1000);
            std::process::exit(99);
        }
    });
}
