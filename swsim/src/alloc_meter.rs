//! Counting global allocator: bytes requested since the last `reset()` (workers are
//! single-threaded, so a process-wide counter is a per-run counter).
use std::alloc::{GlobalAlloc, Layout, System};
use std::sync::atomic::{AtomicU64, Ordering};

pub struct Counting;

static REQUESTED: AtomicU64 = AtomicU64::new(0);
static LARGEST: AtomicU64 = AtomicU64::new(0);

unsafe impl GlobalAlloc for Counting {
    unsafe fn alloc(&self, layout: Layout) -> *mut u8 {
        REQUESTED.fetch_add(layout.size() as u64, Ordering::Relaxed);
        LARGEST.fetch_max(layout.size() as u64, Ordering::Relaxed);
        System.alloc(layout)
    }
    unsafe fn dealloc(&self, ptr: *mut u8, layout: Layout) {
        System.dealloc(ptr, layout)
    }
    unsafe fn realloc(&self, ptr: *mut u8, layout: Layout, new_size: usize) -> *mut u8 {
        if new_size > layout.size() {
            REQUESTED.fetch_add((new_size - layout.size()) as u64, Ordering::Relaxed);
        }
        LARGEST.fetch_max(new_size as u64, Ordering::Relaxed);
        System.realloc(ptr, layout, new_size)
    }
}

pub fn reset() {
    REQUESTED.store(0, Ordering::Relaxed);
    LARGEST.store(0, Ordering::Relaxed);
}
pub fn requested() -> u64 {
    REQUESTED.load(Ordering::Relaxed)
}
pub fn largest() -> u64 {
    LARGEST.load(Ordering::Relaxed)
}
