//! C06 / C07: the FRI sub-protocol. P_hon = coefficient-space reference prover, V = real
//! `fri_commit` + `fri_verify` (+ `compute_next_layer` for the fold identity).
use super::hexf;
use crate::common::{replay_envelope, Ctx};
use crate::models::{self, FriProver, FriShape, RefTranscript};
use crate::monitor::{self, Outcome};
use crate::rng::Rng;
use serde_json::{json, Value};
use starknet_crypto::Felt;
use swiftness_commitment::{table, vector};
use swiftness_fri::config::Config as FriConfig;
use swiftness_fri::layer::{compute_next_layer, FriLayerComputationParams, FriLayerQuery};
use swiftness_fri::types::{Commitment as FriCommitment, Decommitment as FriDecommitment, LayerWitness, UnsentCommitment, Witness};
use swiftness_transcript::transcript::Transcript;

pub fn draw_shape(rng: &mut Rng, quick: bool, stats: &mut crate::common::Stats) -> FriShape {
    let max_input = if quick { 11 } else { 15 };
    loop {
        let n_inner = match rng.below(6) {
            0 => 1,
            1 => rng.range(5, 14),
            _ => rng.range(1, 5),
        } as usize;
        // force each step size to occur: first inner step cycles through 1..4 by draw
        let mut steps = vec![0u32];
        for _ in 0..n_inner {
            steps.push(rng.range(1, 4) as u32);
        }
        let log_last = match rng.below(4) {
            0 => 0,
            _ => rng.range(0, if quick { 5 } else { 8 }),
        } as u32;
        let blow = rng.range(1, 4) as u32;
        let (steps, log_last, blow) = if n_inner >= 10 {
            // many layers: all steps 1, constant last layer, masked hashing (cheap up to 2^15)
            (std::iter::once(0).chain(std::iter::repeat(1).take(n_inner)).collect::<Vec<u32>>(), 0u32, 1u32)
        } else {
            (steps, log_last, blow)
        };
        let sum: u32 = steps.iter().sum();
        let log_input = sum + log_last + blow;
        if log_input > max_input && n_inner < 10 {
            continue;
        }
        let nf = if n_inner >= 10 { 0 } else { match rng.below(4) {
            0 => 0, // everything masked: cheap, allows the biggest domains
            1 => 1000,
            _ => rng.range(0, log_input as u64 + 2),
        } };
        // Poseidon-heavy big instances are expensive; keep them rarer
        if nf > 4 && log_input > 9 && !rng.chance(1, 4) {
            continue;
        }
        for s in &steps[1..] {
            stats.probe(&format!("fri.step{s}"));
        }
        if log_last == 0 {
            stats.probe("fri.last-layer-constant");
        }
        if n_inner >= 10 {
            stats.probe("fri.many-layers");
        }
        return FriShape { log_input, steps, log_last_bound: log_last, n_friendly: nf };
    }
}

pub fn fri_config(shape: &FriShape) -> FriConfig {
    let mut inner = Vec::new();
    let mut h = shape.log_input;
    for s in &shape.steps[1..] {
        h -= s;
        inner.push(table::config::Config {
            n_columns: Felt::from(1u64 << s),
            vector: vector::config::Config {
                height: Felt::from(h as u64),
                n_verifier_friendly_commitment_layers: Felt::from(shape.n_friendly),
            },
        });
    }
    FriConfig {
        log_input_size: Felt::from(shape.log_input as u64),
        n_layers: Felt::from(shape.steps.len() as u64),
        inner_layers: inner,
        fri_step_sizes: shape.steps.iter().map(|s| Felt::from(*s as u64)).collect(),
        log_last_layer_degree_bound: Felt::from(shape.log_last_bound as u64),
    }
}

/// A complete instance of the sub-protocol as the verifier sees it.
#[derive(Clone)]
pub struct FriCall {
    pub config: FriConfig,
    pub roots: Vec<Felt>,
    pub eval_points: Vec<Felt>,
    pub last_layer: Vec<Felt>,
    pub queries: Vec<Felt>,
    pub values: Vec<Felt>,
    pub points: Vec<Felt>,
    pub layers: Vec<(Vec<Felt>, Vec<Felt>)>,
}

impl FriCall {
    fn commitment(&self) -> FriCommitment {
        FriCommitment {
            config: self.config.clone(),
            inner_layers: self
                .roots
                .iter()
                .zip(self.config.inner_layers.iter())
                .map(|(r, c)| table::types::Commitment {
                    config: c.clone(),
                    vector_commitment: vector::types::Commitment { config: c.vector.clone(), commitment_hash: *r },
                })
                .collect(),
            eval_points: self.eval_points.clone(),
            last_layer_coefficients: self.last_layer.clone(),
        }
    }
    fn witness(&self) -> Witness {
        Witness {
            layers: self
                .layers
                .iter()
                .map(|(l, a)| LayerWitness {
                    leaves: l.clone(),
                    table_witness: table::types::Witness { vector: vector::types::Witness { authentications: a.clone() } },
                })
                .collect(),
        }
    }
    pub fn run_verify(&self) -> Outcome {
        let (c, w) = (self.commitment(), self.witness());
        let d = FriDecommitment { values: self.values.clone(), points: self.points.clone() };
        let q = self.queries.clone();
        monitor::guarded(50_000_000, || swiftness_fri::fri::fri_verify(&q, c, d, w)).outcome
    }
    pub fn to_json(&self) -> Value {
        let fs = |v: &Vec<Felt>| v.iter().map(hexf).collect::<Vec<_>>();
        json!({
            "config": serde_json::to_value(&self.config).unwrap(),
            "roots": fs(&self.roots), "eval_points": fs(&self.eval_points), "last_layer": fs(&self.last_layer),
            "queries": fs(&self.queries), "values": fs(&self.values), "points": fs(&self.points),
            "layers": self.layers.iter().map(|(l, a)| json!({"leaves": fs(l), "auth": fs(a)})).collect::<Vec<_>>(),
        })
    }
    pub fn from_json(v: &Value) -> Result<Self, String> {
        let f = |x: &Value| Felt::from_hex(x.as_str().ok_or("not a string")?).map_err(|e| format!("{e:?}"));
        let fs = |x: &Value| x.as_array().ok_or("array")?.iter().map(f).collect::<Result<Vec<_>, String>>();
        Ok(FriCall {
            config: serde_json::from_value(v["config"].clone()).map_err(|e| e.to_string())?,
            roots: fs(&v["roots"])?,
            eval_points: fs(&v["eval_points"])?,
            last_layer: fs(&v["last_layer"])?,
            queries: fs(&v["queries"])?,
            values: fs(&v["values"])?,
            points: fs(&v["points"])?,
            layers: v["layers"].as_array().ok_or("layers")?.iter().map(|l| Ok((fs(&l["leaves"])?, fs(&l["auth"])?))).collect::<Result<_, String>>()?,
        })
    }
}

pub struct Instance {
    pub shape: FriShape,
    pub prover: FriProver,
    pub call: FriCall,
    pub q_idx: Vec<u64>,
    pub digest: Felt,
}

/// Draws query indices for the input layer with the corner shapes of the property.
fn draw_fri_queries(rng: &mut Rng, shape: &FriShape, stats: &mut crate::common::Stats) -> Vec<u64> {
    let n = 1u64 << shape.log_input;
    let first_step = shape.steps[1];
    match rng.below(6) {
        0 => {
            stats.probe("fri.single-query");
            vec![rng.below(n)]
        }
        1 => {
            stats.probe("fri.two-queries-one-coset");
            let c = rng.below(n >> first_step) << first_step;
            let w = 1u64 << first_step;
            let a = rng.below(w);
            let mut b = rng.below(w);
            if b == a {
                b = (a + 1) % w;
            }
            let mut v = vec![c + a, c + b];
            v.sort();
            v
        }
        2 => {
            stats.probe("fri.whole-coset-queried");
            let c = rng.below(n >> first_step) << first_step;
            (0..(1u64 << first_step)).map(|j| c + j).collect()
        }
        3 if n <= 256 => {
            stats.probe("fri.all-points-queried");
            (0..n).collect()
        }
        _ => {
            let k = rng.range(2, n.min(48)) as usize;
            rng.distinct_sorted(k, n)
        }
    }
}

pub fn build_instance(rng: &mut Rng, shape: FriShape, coeffs: Vec<Felt>, last_len: Option<usize>, queries: Vec<u64>) -> Instance {
    let digest = rng.felt();
    let mut t = RefTranscript::new(digest);
    let prover = FriProver::commit(shape.clone(), coeffs, &mut t, last_len);
    let (values, layers, _) = prover.open(&queries);
    let call = FriCall {
        config: fri_config(&shape),
        roots: prover.tables.iter().map(|t| t.root()).collect(),
        eval_points: prover.eval_points.clone(),
        last_layer: prover.last_layer.clone(),
        queries: queries.iter().map(|q| Felt::from(*q)).collect(),
        values,
        points: queries.iter().map(|q| models::query_point(*q, shape.log_input)).collect(),
        layers,
    };
    Instance { shape, prover, call, q_idx: queries, digest }
}

fn random_poly(rng: &mut Rng, len: usize) -> Vec<Felt> {
    (0..len).map(|_| rng.felt()).collect()
}

/// Real commit phase on the real transcript; returns the evaluation points V derived.
fn real_commit(inst: &Instance) -> (Outcome, Option<Vec<Felt>>) {
    let unsent = UnsentCommitment { inner_layers: inst.call.roots.clone(), last_layer_coefficients: inst.call.last_layer.clone() };
    let cfg = inst.call.config.clone();
    let digest = inst.digest;
    let mut pts = None;
    let r = monitor::guarded_val(50_000_000, || {
        let mut t = Transcript::new(digest);
        let c = swiftness_fri::fri::fri_commit(&mut t, unsent, cfg);
        (c.eval_points, *t.digest())
    });
    if let Outcome::Accept(_) = &r.outcome {
        // re-run outside the guard to get the typed value (deterministic)
        let unsent = UnsentCommitment { inner_layers: inst.call.roots.clone(), last_layer_coefficients: inst.call.last_layer.clone() };
        let mut t = Transcript::new(digest);
        let c = swiftness_fri::fri::fri_commit(&mut t, unsent, inst.call.config.clone());
        pts = Some(c.eval_points);
    }
    (r.outcome, pts)
}

/// Cross-invariant: real `compute_next_layer` output equals 2^k * sum_j b^j P_j(y).
fn check_fold_identity(inst: &Instance) -> Result<u64, String> {
    let group = swiftness_fri::group::get_fri_group();
    let three_inv = models::inv(Felt::THREE);
    let mut queries: Vec<FriLayerQuery> = inst
        .q_idx
        .iter()
        .zip(inst.call.values.iter())
        .zip(inst.call.points.iter())
        .map(|((q, v), p)| FriLayerQuery { index: Felt::from(*q), y_value: *v, x_inv_value: models::inv(*p * three_inv) })
        .collect();
    let mut checked = 0;
    for (i, (leaves, _)) in inst.call.layers.iter().enumerate() {
        let step = inst.shape.steps[i + 1];
        let mut sib = leaves.clone();
        let params = FriLayerComputationParams {
            coset_size: Felt::from(1u64 << step),
            fri_group: group.clone(),
            eval_point: inst.call.eval_points[i],
        };
        let (next, _idx, _vals) = compute_next_layer(&mut queries, &mut sib, params).map_err(|e| format!("{e:?}"))?;
        for nq in &next {
            let y = models::inv(nq.x_inv_value);
            let want = models::eval_poly(&inst.prover.coeffs[i + 1], y);
            if want != nq.y_value {
                return Err(format!("layer {i} step {step}: fold of coset {} gives {} but 2^k*sum b^j P_j(y) = {}", hexf(&nq.index), hexf(&nq.y_value), hexf(&want)));
            }
            checked += 1;
        }
        queries = next;
    }
    Ok(checked)
}

fn shape_class(s: &FriShape, nq: usize) -> String {
    format!("in{}|steps{:?}|last{}|f{}|q{}", s.log_input, &s.steps[1..], s.log_last_bound, s.n_friendly.min(s.log_input as u64 + 2), nq.min(8))
}

pub fn c06(ctx: &mut Ctx) {
    let scenario = "core.c06";
    for p in ["fri.step1", "fri.step2", "fri.step3", "fri.step4", "fri.last-layer-constant", "fri.many-layers", "fri.single-query", "fri.two-queries-one-coset", "fri.whole-coset-queried", "fri.all-points-queried", "fri.sparse-polynomial", "fri.zero-polynomial", "fri.zero-at-a-queried-point", "fri.queried-input-value-is-zero", "fold-identity-cosets-checked"] {
        ctx.stats.declare_probe(p);
    }
    let n_inst: u64 = if ctx.is_quick() { 4_000 } else { 40_000 };
    for k in 0..n_inst {
        if !ctx.mine(k) {
            continue;
        }
        ctx.begin_run(scenario, k);
        let mut rng = Rng::derive(ctx.seed, scenario, k);
        let shape = draw_shape(&mut rng, ctx.is_quick(), &mut ctx.stats);
        let bound = 1usize << shape.log_degree_bound();
        let deg_len = match rng.below(4) {
            0 => bound, // degree exactly bound-1
            1 => 1,     // constant
            2 => rng.range(1, bound as u64) as usize,
            _ => bound,
        };
        let mut coeffs = random_poly(&mut rng, deg_len);
        let queries = draw_fri_queries(&mut rng, &shape, &mut ctx.stats);
        match rng.below(8) {
            6 => {
                // the zero function: every queried and folded value is 0
                ctx.stats.probe("fri.zero-polynomial");
                for c in coeffs.iter_mut() {
                    *c = Felt::ZERO;
                }
            }
            7 if deg_len >= 2 => {
                // a root at a queried point: r(x)·(x − x_q), same length
                ctx.stats.probe("fri.zero-at-a-queried-point");
                // (the reference prover's polynomial is in u = x/3: the point of index q is w^bitrev(q))
                let q = queries[rng.usize_below(queries.len())];
                let xq = models::subgroup_generator(shape.log_input).pow(models::bitrev(q, shape.log_input) as u128);
                let r = coeffs[..deg_len - 1].to_vec();
                let mut c2 = vec![Felt::ZERO; deg_len];
                for (i, ri) in r.iter().enumerate() {
                    c2[i + 1] += *ri;
                    c2[i] -= *ri * xq;
                }
                coeffs = c2;
            }
            0 => {
                // sparse: only the lowest and highest coefficient
                ctx.stats.probe("fri.sparse-polynomial");
                for c in coeffs.iter_mut().skip(1).take(deg_len.saturating_sub(2)) {
                    *c = Felt::ZERO;
                }
            }
            1 => {
                // polynomial in x^(2^sum_steps): the folded last layer has interior zeros
                ctx.stats.probe("fri.sparse-polynomial");
                let stride = 1usize << rng.range(1, shape.sum_steps().max(1) as u64);
                for (i, c) in coeffs.iter_mut().enumerate() {
                    if i % stride != 0 && rng.chance(3, 4) {
                        *c = Felt::ZERO;
                    }
                }
            }
            _ => {}
        }
        let inst = build_instance(&mut rng, shape.clone(), coeffs, None, queries.clone());
        if inst.call.values.iter().any(|v| *v == Felt::ZERO) {
            ctx.stats.probe("fri.queried-input-value-is-zero");
        }
        ctx.stats.messages_delivered += (inst.call.roots.len() + inst.call.last_layer.len() + inst.call.values.len() + inst.call.layers.iter().map(|(l, a)| l.len() + a.len()).sum::<usize>()) as u64;
        let sc = shape_class(&shape, queries.len());
        // the configuration itself must be accepted by the real validation (every valid FRI
        // configuration: 2..15 layers, steps 1..4, last bound 0..15)
        {
            let blow = shape.log_input - shape.log_degree_bound();
            let cfg = inst.call.config.clone();
            let vo = monitor::guarded(1_000_000, || cfg.validate(Felt::from(blow as u64), Felt::from(shape.n_friendly))).outcome;
            ctx.stats.evaluations += 1;
            if !vo.is_accept() {
                let rep = replay_envelope("C06", scenario, &ctx.variant, json!({"call": "fri_verify", "args": inst.call.to_json(), "digest": hexf(&inst.digest), "expect": "config-valid", "expected_outcome": vo.describe()}));
                ctx.violation(&format!("C06|valid-config-rejected|{}", vo.class()), &format!("fri::Config::validate rejects a valid configuration: {} shape {}", vo.describe(), shape_class(&shape, queries.len())), rep);
                continue;
            }
        }
        // commit phase on the real transcript
        let (co, pts) = real_commit(&inst);
        ctx.stats.evaluations += 1;
        let variant06 = ctx.variant.clone();
        let mk_replay = |call: &FriCall, expect: &str, o: &Outcome, extra: Value| {
            replay_envelope("C06", scenario, &variant06, json!({"call": "fri_verify", "args": call.to_json(), "digest": hexf(&inst.digest), "expect": expect, "expected_outcome": o.describe(), "extra": extra}))
        };
        match pts {
            Some(p) if p == inst.call.eval_points => {}
            Some(_) => {
                let rep = mk_replay(&inst.call, "commit-points", &co, json!({}));
                ctx.violation("C06|eval-points-differ", &format!("fri_commit derived other evaluation points than the reference transcript; shape {sc}"), rep);
                continue;
            }
            None => {
                let rep = mk_replay(&inst.call, "commit-ok", &co, json!({}));
                ctx.violation(&format!("C06|honest-commit-failed|{}", co.class()), &format!("fri_commit failed on an honest instance: {} shape {sc}", co.describe()), rep);
                continue;
            }
        }
        let o = inst.call.run_verify();
        ctx.stats.evaluations += 1;
        ctx.stats.state(format!("{sc}|{}", o.class()));
        if ctx.stats.samples.len() < 3 {
            ctx.stats.sample(json!({"shape": format!("{shape:?}"), "degree_len": deg_len, "queries": queries, "outcome": o.class()}));
        }
        if !o.is_accept() {
            let class = format!("C06|honest-rejected|{}", o.class());
            if ctx.seen_class(&class) {
                ctx.violation(&class, "", Value::Null);
                continue;
            }
            // shape shrinking: the smallest ladder shape / query set whose honest instance is rejected
            let mut reported = false;
            'shrink: for (steps, last, blow) in [(&[0u32, 1][..], 0u32, 1u32), (&[0, 1][..], 1, 1), (&[0, 2][..], 0, 1), (&[0, 1, 1][..], 0, 1), (&[0, 1, 2][..], 0, 1), (&[0, 2, 1][..], 1, 1), (&[0, 3][..], 1, 2), (&[0, 4][..], 0, 1), (&[0, 1, 3][..], 1, 1), (&[0, 1, 2, 4][..], 0, 1)] {
                let sum: u32 = steps.iter().sum();
                let sh = FriShape { log_input: sum + last + blow, steps: steps.to_vec(), log_last_bound: last, n_friendly: shape.n_friendly.min((sum + last + blow) as u64 + 2) };
                let n = 1u64 << sh.log_input;
                let w0 = 1u64 << steps[1];
                let all: Vec<u64> = (0..n).collect();
                let coset: Vec<u64> = (0..w0).collect();
                for qs in [vec![0u64], vec![n - 1], coset.clone(), vec![0, n - 1], vec![w0 - 1, w0], all.clone()] {
                    let mut qs = qs.clone();
                    qs.sort();
                    qs.dedup();
                    for sparse in [false, true] {
                        let mut r2 = Rng::new(ctx.seed ^ k ^ (sh.log_input as u64) << 3 ^ qs.len() as u64);
                        let mut c2 = random_poly(&mut r2, 1usize << sh.log_degree_bound());
                        if sparse {
                            let l = c2.len();
                            for c in c2.iter_mut().skip(1).take(l.saturating_sub(2)) {
                                *c = Felt::ZERO;
                            }
                        }
                        let i2 = build_instance(&mut r2, sh.clone(), c2, None, qs.clone());
                        let o2 = i2.call.run_verify();
                        if !o2.is_accept() {
                            let rep = mk_replay(&i2.call, "ok", &o2, json!({"minimised_from": sc}));
                            ctx.violation(&class, &format!("honest FRI instance rejected: {} shape {} queries {qs:?}{} (minimised from shape {sc}, {} queries)", o2.describe(), shape_class(&sh, qs.len()), if sparse { " sparse polynomial" } else { "" }, queries.len()), rep);
                            reported = true;
                            break 'shrink;
                        }
                    }
                }
            }
            if !reported {
                let rep = mk_replay(&inst.call, "ok", &o, json!({"degree_len": deg_len}));
                ctx.violation(&class, &format!("honest FRI instance rejected: {} shape {sc} queries {queries:?}", o.describe()), rep);
            }
            continue;
        }
        match check_fold_identity(&inst) {
            Ok(n) => ctx.stats.probe_n("fold-identity-cosets-checked", n),
            Err(e) => {
                let rep = mk_replay(&inst.call, "fold-identity", &o, json!({"error": e}));
                ctx.violation("C06|fold-identity", &format!("{e}; shape {sc}"), rep);
            }
        }
    }
}


// ------------------------------------------------------------------------------------------
// big domains (2^20 .. 2^63): the constant polynomial
// ------------------------------------------------------------------------------------------
//
// The reference prover materialises every layer, which stops at about 2^15 points. For the
// constant polynomial c every layer is constant (c, 2^k·c, ...), every committed row is the same,
// and a Merkle tree over identical leaves has one node value per depth: commitment and paths cost
// O(height), so honest instances exist for every domain size the configuration allows, with query
// indices far above 2^32.

pub fn draw_big_shape(rng: &mut Rng) -> FriShape {
    loop {
        let n_inner = rng.range(5, 14) as usize;
        let mut steps = vec![0u32];
        for _ in 0..n_inner {
            steps.push(rng.range(1, 4) as u32);
        }
        let log_last = rng.range(0, 10) as u32;
        let blow = rng.range(1, 6) as u32;
        let log_input = steps.iter().sum::<u32>() + log_last + blow;
        if !(20..=63).contains(&log_input) {
            continue;
        }
        let nf = match rng.below(4) {
            0 => 0,
            1 => 1000,
            _ => rng.range(0, log_input as u64 + 2),
        };
        return FriShape { log_input, steps, log_last_bound: log_last, n_friendly: nf };
    }
}

pub fn draw_big_queries(rng: &mut Rng, log_input: u32) -> Vec<u64> {
    let n = 1u64 << log_input;
    let mut v = Vec::new();
    let k = rng.range(1, 10);
    for _ in 0..k {
        let q = match rng.below(8) {
            0 => 0,
            1 => n - 1,
            2 => (1u64 << 32).wrapping_sub(1) % n,
            3 => (1u64 << 32) % n,
            4 => ((1u64 << 32) + rng.below(64)) % n,
            5 => (n >> 1).wrapping_add(rng.below(4)) % n,
            _ => rng.below(n),
        };
        v.push(q);
        if rng.chance(1, 3) {
            v.push(q ^ 1);
        }
    }
    v.sort();
    v.dedup();
    v
}

/// Honest instance for the constant polynomial `c` on any shape; returns (call, transcript digest).
pub fn build_constant_instance(rng: &mut Rng, shape: &FriShape, c: Felt, queries: &[u64]) -> (FriCall, Felt) {
    let digest = rng.felt();
    let mut t = RefTranscript::new(digest);
    let mut roots = Vec::new();
    let mut eval_points = Vec::new();
    let mut layers = Vec::new();
    let mut cur: Vec<u64> = queries.to_vec();
    let mut value = c;
    let mut log_size = shape.log_input;
    for step in &shape.steps[1..] {
        let w = 1u64 << step;
        let height = log_size - step;
        let row = vec![value; w as usize];
        let (root, nodes) = models::RefTable::constant_root(&row, height, shape.n_friendly);
        t.absorb(&[root]);
        eval_points.push(t.squeeze());
        roots.push(root);
        let mut cosets: Vec<u64> = cur.iter().map(|q| q >> step).collect();
        cosets.dedup();
        let n_sibling = cosets.len() as u64 * w - cur.len() as u64;
        layers.push((vec![value; n_sibling as usize], models::constant_auth(&nodes, height, &cosets)));
        cur = cosets;
        value *= models::pow2(*step as u64);
        log_size -= step;
    }
    let mut last = vec![Felt::ZERO; 1usize << shape.log_last_bound];
    last[0] = value;
    t.absorb(&last);
    let call = FriCall {
        config: fri_config(shape),
        roots,
        eval_points,
        last_layer: last,
        queries: queries.iter().map(|q| Felt::from(*q)).collect(),
        values: vec![c; queries.len()],
        points: queries.iter().map(|q| models::query_point(*q, shape.log_input)).collect(),
        layers,
    };
    (call, digest)
}

fn real_commit_points(call: &FriCall, digest: Felt) -> (Outcome, Option<Vec<Felt>>) {
    let mk = || UnsentCommitment { inner_layers: call.roots.clone(), last_layer_coefficients: call.last_layer.clone() };
    let cfg = call.config.clone();
    let unsent = mk();
    let r = monitor::guarded_val(50_000_000, move || {
        let mut t = Transcript::new(digest);
        let c = swiftness_fri::fri::fri_commit(&mut t, unsent, cfg);
        (c.eval_points, *t.digest())
    });
    let mut pts = None;
    if let Outcome::Accept(_) = &r.outcome {
        let mut t = Transcript::new(digest);
        pts = Some(swiftness_fri::fri::fri_commit(&mut t, mk(), call.config.clone()).eval_points);
    }
    (r.outcome, pts)
}

/// C06 on big domains: configuration valid, commit phase agrees with the reference transcript,
/// the honest constant instance is accepted.
pub fn c06_big(ctx: &mut Ctx) {
    let scenario = "core.c06.big";
    for p in ["fri.big.query-at-or-above-2^32", "fri.big.domain-above-2^40", "fri.big.query-zero", "fri.big.query-last"] {
        ctx.stats.declare_probe(p);
    }
    let n_inst: u64 = if ctx.is_quick() { 400 } else { 6_000 };
    for k in 0..n_inst {
        if !ctx.mine(k) {
            continue;
        }
        ctx.begin_run(scenario, k);
        let mut rng = Rng::derive(ctx.seed, scenario, k);
        let shape = draw_big_shape(&mut rng);
        let queries = draw_big_queries(&mut rng, shape.log_input);
        let c = if rng.chance(1, 8) { Felt::ZERO } else { rng.felt() };
        let (call, digest) = build_constant_instance(&mut rng, &shape, c, &queries);
        if queries.iter().any(|q| *q >= 1 << 32) {
            ctx.stats.probe("fri.big.query-at-or-above-2^32");
        }
        if shape.log_input > 40 {
            ctx.stats.probe("fri.big.domain-above-2^40");
        }
        if queries[0] == 0 {
            ctx.stats.probe("fri.big.query-zero");
        }
        if *queries.last().unwrap() == (1u64 << shape.log_input) - 1 {
            ctx.stats.probe("fri.big.query-last");
        }
        let sc = shape_class(&shape, queries.len());
        let variant = ctx.variant.clone();
        let mk_replay = |expect: &str, o: &Outcome| replay_envelope("C06", "core.c06", &variant, json!({"call": "fri_verify", "args": call.to_json(), "digest": hexf(&digest), "expect": expect, "expected_outcome": o.describe(), "extra": {"constant_polynomial": hexf(&c)}}));
        let blow = shape.log_input - shape.log_degree_bound();
        let cfg = call.config.clone();
        let vo = monitor::guarded(1_000_000, || cfg.validate(Felt::from(blow as u64), Felt::from(shape.n_friendly))).outcome;
        ctx.stats.evaluations += 1;
        if !vo.is_accept() {
            ctx.violation(&format!("C06|valid-config-rejected|{}", vo.class()), &format!("fri::Config::validate rejects a valid configuration: {} shape {sc}", vo.describe()), mk_replay("config-valid", &vo));
            continue;
        }
        let (co, pts) = real_commit_points(&call, digest);
        ctx.stats.evaluations += 1;
        match pts {
            Some(p) if p == call.eval_points => {}
            Some(_) => {
                ctx.violation("C06|eval-points-differ", &format!("fri_commit derived other evaluation points than the reference transcript; shape {sc}"), mk_replay("commit-points", &co));
                continue;
            }
            None => {
                ctx.violation(&format!("C06|honest-commit-failed|{}", co.class()), &format!("fri_commit failed on an honest instance: {} shape {sc}", co.describe()), mk_replay("commit-ok", &co));
                continue;
            }
        }
        let o = call.run_verify();
        ctx.stats.evaluations += 1;
        ctx.stats.messages_delivered += (call.roots.len() + call.last_layer.len() + call.values.len() + call.layers.iter().map(|(l, a)| l.len() + a.len()).sum::<usize>()) as u64;
        ctx.stats.state(format!("big|in{}|q{}|{}", shape.log_input / 8 * 8, queries.len().min(8), o.class()));
        if !o.is_accept() {
            ctx.violation(&format!("C06|honest-rejected|{}", o.class()), &format!("honest FRI instance (constant polynomial, domain 2^{}) rejected: {} shape {sc} queries {queries:?}", shape.log_input, o.describe()), mk_replay("ok", &o));
        }
    }
}

/// C07 on big domains: every single fault of an honest constant instance is rejected.
pub fn c07_big(ctx: &mut Ctx) {
    let scenario = "core.c07.big";
    let n_inst: u64 = if ctx.is_quick() { 64 } else { 2_500 };
    for k in 0..n_inst {
        if !ctx.mine(k) {
            continue;
        }
        ctx.begin_run(scenario, k);
        let mut rng = Rng::derive(ctx.seed, scenario, k);
        let shape = draw_big_shape(&mut rng);
        let queries = draw_big_queries(&mut rng, shape.log_input);
        let c = rng.felt_nonzero();
        let (call, digest) = build_constant_instance(&mut rng, &shape, c, &queries);
        let sc = shape_class(&shape, queries.len());
        let o = call.run_verify();
        ctx.stats.evaluations += 1;
        if !o.is_accept() {
            ctx.stats.skip("base-not-accepted (C06's business)");
            continue;
        }
        for (name, f) in fri_faults(&call, &mut rng, 2) {
            // folding a constant does not involve the layer's challenge (the odd part is zero):
            // a changed challenge is not visible on this base; it is covered on the small domains
            if name.starts_with("eval-point") {
                continue;
            }
            let fo = f.run_verify();
            ctx.stats.evaluations += 1;
            ctx.stats.messages_delivered += 1;
            let kind = kind_of(&name);
            ctx.stats.fired(&kind);
            ctx.stats.state(format!("big|in{}|{kind}|{}", shape.log_input / 8 * 8, fo.class()));
            if fo.is_accept() {
                let rep = replay_envelope("C07", "core.c07", &ctx.variant, json!({"call": "fri_verify", "args": f.to_json(), "digest": hexf(&digest), "expect": "not_ok", "expected_outcome": fo.describe(), "extra": {"fault": name, "base": "constant polynomial on a big domain"}}));
                ctx.violation(&format!("C07|fault-accepted|{kind}"), &format!("fault {name} accepted; shape {sc} (domain 2^{}) queries {queries:?}", shape.log_input), rep);
            }
        }
    }
}

// ------------------------------------------------------------------------------------------
// C07
// ------------------------------------------------------------------------------------------

fn sample_idx(rng: &mut Rng, len: usize, max: usize) -> Vec<usize> {
    if len <= max {
        (0..len).collect()
    } else {
        let mut v = vec![0, len - 1];
        while v.len() < max {
            v.push(rng.usize_below(len));
        }
        v.sort();
        v.dedup();
        v
    }
}

fn fri_faults(call: &FriCall, rng: &mut Rng, per_kind: usize) -> Vec<(String, FriCall)> {
    let mut out = Vec::new();
    for i in sample_idx(rng, call.values.len(), per_kind) {
        let mut c = call.clone();
        c.values[i] += Felt::ONE;
        out.push((format!("input-value[{i}]+1"), c));
    }
    // sentinel values at a queried position, alone and together with the honest value slipped
    // into the sibling leaves at the place where a verifier that mistook the sentinel for "not
    // queried" would look for it. The verifier computed the value itself: it must reject.
    {
        let s1 = felt_to_u64(&call.config.fri_step_sizes.get(1).copied().unwrap_or(Felt::ZERO)).unwrap_or(0).min(8);
        let qs: Vec<u64> = call.queries.iter().filter_map(felt_to_u64).collect();
        if qs.len() == call.queries.len() && !call.layers.is_empty() {
            for i in sample_idx(rng, call.values.len(), per_kind) {
                // leaves consumed before position i: non-queried positions of earlier cosets and
                // of the own coset below it
                let (c_i, pos_i) = (qs[i] >> s1, qs[i] & ((1u64 << s1) - 1));
                let mut cosets: Vec<u64> = qs.iter().map(|q| q >> s1).collect();
                cosets.dedup();
                let earlier: u64 = cosets.iter().filter(|c| **c < c_i).map(|c| (1u64 << s1) - qs.iter().filter(|q| (**q >> s1) == *c).count() as u64).sum();
                let own = pos_i - qs.iter().filter(|q| (**q >> s1) == c_i && (**q & ((1u64 << s1) - 1)) < pos_i).count() as u64;
                let at = ((earlier + own) as usize).min(call.layers[0].0.len());
                for (nm, sentinel) in [("zero", Felt::ZERO), ("one", Felt::ONE)] {
                    if call.values[i] == sentinel {
                        continue;
                    }
                    let mut c = call.clone();
                    c.values[i] = sentinel;
                    out.push((format!("input-{nm}[{i}]"), c.clone()));
                    c.layers[0].0.insert(at, call.values[i]);
                    out.push((format!("input-{nm}+own-leaf[{i}]"), c));
                }
            }
        }
    }
    // NOTE: the decommitment `points` are computed by the verifier itself from the query indices
    // (queries_to_points); they are not prover messages and "evaluation point" in C07 means the
    // per-layer FRI challenge. A fault on `points` was tried and removed: with two queries in one
    // coset the first query's point is legitimately unused (see DESIGN.md, false alarms).
    for i in 0..call.eval_points.len() {
        let mut c = call.clone();
        c.eval_points[i] += Felt::ONE;
        out.push((format!("eval-point[{i}]+1"), c));
    }
    for i in 0..call.roots.len() {
        let mut c = call.clone();
        c.roots[i] += Felt::ONE;
        out.push((format!("layer-root[{i}]+1"), c));
    }
    for (li, (leaves, auth)) in call.layers.iter().enumerate() {
        for i in sample_idx(rng, leaves.len(), per_kind) {
            let mut c = call.clone();
            c.layers[li].0[i] += Felt::ONE;
            out.push((format!("sibling-leaf[{li}][{i}]+1"), c));
        }
        if !leaves.is_empty() {
            let i = rng.usize_below(leaves.len());
            let mut c = call.clone();
            c.layers[li].0.remove(i);
            out.push((format!("sibling-leaf[{li}][{i}] deleted"), c));
        }
        for i in sample_idx(rng, auth.len(), per_kind) {
            let mut c = call.clone();
            c.layers[li].1[i] += Felt::ONE;
            out.push((format!("auth-node[{li}][{i}]+1"), c));
        }
        if !auth.is_empty() {
            let i = rng.usize_below(auth.len());
            let mut c = call.clone();
            c.layers[li].1.remove(i);
            out.push((format!("auth-node[{li}][{i}] deleted"), c));
        }
    }
    for i in sample_idx(rng, call.last_layer.len(), per_kind) {
        let mut c = call.clone();
        c.last_layer[i] += Felt::ONE;
        out.push((format!("last-coefficient[{i}]+1"), c));
    }
    // a last layer (or one coefficient of it) zeroed: the zero polynomial is a polynomial like any
    // other and must be compared with the folded values
    if call.last_layer.iter().any(|c| *c != Felt::ZERO) {
        let mut c = call.clone();
        for x in c.last_layer.iter_mut() {
            *x = Felt::ZERO;
        }
        out.push(("last-layer-zeroed".into(), c));
        for i in sample_idx(rng, call.last_layer.len(), per_kind) {
            if call.last_layer[i] != Felt::ZERO {
                let mut c = call.clone();
                c.last_layer[i] = Felt::ZERO;
                out.push((format!("last-coefficient-zeroed[{i}]"), c));
            }
        }
    }
    // last-layer length
    let mut c = call.clone();
    c.last_layer.push(Felt::ZERO);
    out.push(("last-length+1(zero)".into(), c));
    let mut c = call.clone();
    c.last_layer.push(rng.felt());
    out.push(("last-length+1(random)".into(), c));
    let mut c = call.clone();
    c.last_layer.pop();
    out.push(("last-length-1".into(), c));
    let mut c = call.clone();
    c.last_layer.clear();
    out.push(("last-length=0".into(), c));
    let mut c = call.clone();
    let l = c.last_layer.len();
    c.last_layer.resize(2 * l, Felt::ZERO);
    out.push(("last-length*2(zero)".into(), c));
    out
}

/// Shape shrinking for single-fault FRI violations: the smallest of a fixed ladder of shapes on
/// which a fault of the same kind is still accepted.
fn shrink_fri(seed: u64, kind: &str, n_friendly: u64) -> Option<(FriCall, String, String)> {
    let ladder: [(&[u32], u32, u32); 9] = [
        (&[0, 1], 0, 1),
        (&[0, 1], 1, 1),
        (&[0, 2], 0, 1),
        (&[0, 1, 1], 0, 1),
        (&[0, 3], 1, 1),
        (&[0, 2, 1], 1, 2),
        (&[0, 4], 1, 1),
        (&[0, 1, 2, 1], 1, 1),
        (&[0, 4, 3], 1, 2),
    ];
    for (steps, last, blow) in ladder {
        let sum: u32 = steps.iter().sum();
        let shape = FriShape { log_input: sum + last + blow, steps: steps.to_vec(), log_last_bound: last, n_friendly: n_friendly.min((sum + last + blow) as u64 + 2) };
        let n = 1u64 << shape.log_input;
        for qs in [vec![0u64], vec![n - 1], vec![0, 1], vec![0, n - 1], vec![1, n / 2]] {
            let mut qs = qs.clone();
            qs.sort();
            qs.dedup();
            let mut rng = Rng::new(seed ^ shape.log_input as u64 ^ (qs.len() as u64) << 4);
            let coeffs = random_poly(&mut rng, 1usize << shape.log_degree_bound());
            let inst = build_instance(&mut rng, shape.clone(), coeffs, None, qs.clone());
            if !inst.call.run_verify().is_accept() {
                continue;
            }
            for (name, f) in fri_faults(&inst.call, &mut rng, 16) {
                if kind_of(&name) == kind && f.run_verify().is_accept() {
                    return Some((f, name, format!("{} queries {qs:?}", shape_class(&shape, qs.len()))));
                }
            }
        }
    }
    None
}

fn felt_to_u64(f: &Felt) -> Option<u64> {
    let b = f.to_bytes_be();
    if b[..24].iter().any(|x| *x != 0) {
        return None;
    }
    Some(u64::from_be_bytes(b[24..].try_into().unwrap()))
}

fn kind_of(name: &str) -> String {
    name.split('[').next().unwrap_or(name).split(' ').next().unwrap_or(name).to_string()
}

pub fn c07(ctx: &mut Ctx) {
    let scenario = "core.c07";
    for p in ["fri.step1", "fri.step2", "fri.step3", "fri.step4", "fri.last-layer-constant", "fri.single-query", "fri.two-queries-one-coset", "fri.whole-coset-queried", "high-degree-undetectable-at-queried-points", "high-degree-fitted-but-detectable", "high-degree-fitted-but-last-but-detectable", "high-degree-fitted-but-first-but-detectable"] {
        ctx.stats.declare_probe(p);
    }
    let n_inst: u64 = if ctx.is_quick() { 2_500 } else { 30_000 };
    let per_kind = if ctx.is_quick() { 4 } else { 12 };
    for k in 0..n_inst {
        if !ctx.mine(k) {
            continue;
        }
        ctx.begin_run(scenario, k);
        let mut rng = Rng::derive(ctx.seed, scenario, k);
        let shape = draw_shape(&mut rng, ctx.is_quick(), &mut ctx.stats);
        let bound = 1usize << shape.log_degree_bound();
        let queries = draw_fri_queries(&mut rng, &shape, &mut ctx.stats);
        let sc = shape_class(&shape, queries.len());
        let mk_replay = |variant: &str, call: &FriCall, o: &Outcome, fault: &str| {
            replay_envelope("C07", scenario, variant, json!({"call": "fri_verify", "args": call.to_json(), "expect": "not_ok", "fault": fault, "expected_outcome": o.describe()}))
        };
        let variant = ctx.variant.clone();
        if rng.chance(2, 3) {
            // --- single-position corruption of an honest instance -------------------------
            let coeffs = random_poly(&mut rng, bound);
            let inst = build_instance(&mut rng, shape.clone(), coeffs, None, queries.clone());
            let base = inst.call.run_verify();
            ctx.stats.evaluations += 1;
            if !base.is_accept() {
                ctx.stats.skip("base-not-accepted (C06's business)");
                continue;
            }
            for (name, faulted) in fri_faults(&inst.call, &mut rng, per_kind) {
                let o = faulted.run_verify();
                ctx.stats.evaluations += 1;
                let kind = kind_of(&name);
                ctx.stats.fired(&kind);
                ctx.stats.state(format!("{sc}|{kind}|{}", o.class()));
                if ctx.stats.samples.len() < 3 {
                    ctx.stats.sample(json!({"shape": format!("{shape:?}"), "queries": queries, "fault": name, "outcome": o.class()}));
                }
                if o.is_accept() {
                    let class = format!("C07|fault-accepted|{kind}");
                    if ctx.seen_class(&class) {
                        ctx.violation(&class, "", Value::Null);
                        continue;
                    }
                    match shrink_fri(ctx.seed ^ k, &kind, shape.n_friendly) {
                        Some((f2, name2, where2)) => {
                            let o2 = f2.run_verify();
                            let rep = mk_replay(&variant, &f2, &o2, &name2);
                            ctx.violation(&class, &format!("fault {name2} accepted; shape {where2} (minimised from shape {sc}, {} queries, fault {name})", queries.len()), rep);
                        }
                        None => {
                            let rep = mk_replay(&variant, &faulted, &o, &name);
                            ctx.violation(&class, &format!("fault {name} accepted; shape {sc} queries {queries:?}"), rep);
                        }
                    }
                }
            }
        } else {
            // --- Byzantine: function of degree >= bound, honestly folded ---------------------
            let max_len = (1usize << shape.log_input).min(bound * 4);
            let (tail_kind, coeffs) = match rng.below(4) {
                0 => {
                    // degree exactly `bound`: one extra coefficient
                    let mut c = random_poly(&mut rng, bound);
                    c.push(rng.felt_nonzero());
                    ("degree=bound", c)
                }
                1 => {
                    // honest polynomial plus a multiple of x^bound with a tiny tail
                    let mut c = random_poly(&mut rng, bound);
                    c.resize(max_len, Felt::ZERO);
                    let i = bound + rng.usize_below(max_len - bound);
                    c[i] = Felt::ONE;
                    ("sparse-tail", c)
                }
                _ => {
                    let l = rng.range(bound as u64 + 1, max_len as u64) as usize;
                    ("random-tail", random_poly(&mut rng, l))
                }
            };
            for mode in ["truncated", "untruncated", "fitted", "fitted-but-last", "fitted-but-first"] {
                let kind = format!("high-degree-{mode}:{tail_kind}");
                let Some((inst, detectable)) = high_degree_instance(&mut rng, &shape, &coeffs, &queries, mode) else { continue };
                let o = inst.call.run_verify();
                ctx.stats.evaluations += 1;
                ctx.stats.fired(&kind);
                ctx.stats.state(format!("{sc}|{kind}|{}", o.class()));
                if !detectable {
                    ctx.stats.probe("high-degree-undetectable-at-queried-points");
                    continue;
                }
                if mode.starts_with("fitted") {
                    ctx.stats.probe(&format!("high-degree-{mode}-but-detectable"));
                }
                if o.is_accept() {
                    let class = format!("C07|fault-accepted|{}", kind.split(':').next().unwrap());
                    if ctx.seen_class(&class) {
                        ctx.violation(&class, "", Value::Null);
                        continue;
                    }
                    // shape shrinking: smallest ladder shape on which the same strategy is accepted
                    let mut reported = false;
                    'shrink: for (steps, last, blow) in [(&[0u32, 1][..], 0u32, 1u32), (&[0, 1][..], 1, 1), (&[0, 2][..], 0, 1), (&[0, 1, 1][..], 0, 1), (&[0, 2, 1][..], 1, 1), (&[0, 3][..], 1, 2)] {
                        let sum: u32 = steps.iter().sum();
                        let sh = FriShape { log_input: sum + last + blow, steps: steps.to_vec(), log_last_bound: last, n_friendly: shape.n_friendly.min((sum + last + blow) as u64 + 2) };
                        let n = 1u64 << sh.log_input;
                        let b2 = 1usize << sh.log_degree_bound();
                        for qs in [vec![0u64, n - 1], vec![0, 1, n - 1], vec![1, n / 2, n - 1], vec![0]] {
                            let mut qs = qs.clone();
                            qs.sort();
                            qs.dedup();
                            let mut r2 = Rng::new(ctx.seed ^ k ^ (sh.log_input as u64) << 3 ^ qs.len() as u64);
                            let mut c2 = random_poly(&mut r2, b2);
                            c2.push(r2.felt_nonzero());
                            if let Some((i2, det2)) = high_degree_instance(&mut r2, &sh, &c2, &qs, mode) {
                                if det2 && i2.call.run_verify().is_accept() {
                                    let o2 = i2.call.run_verify();
                                    let rep = mk_replay(&variant, &i2.call, &o2, &kind);
                                    ctx.violation(&class, &format!("{kind} accepted; shape {} queries {qs:?} degree {} (minimised from shape {sc}, {} queries)", shape_class(&sh, qs.len()), c2.len() - 1, queries.len()), rep);
                                    reported = true;
                                    break 'shrink;
                                }
                            }
                        }
                    }
                    if !reported {
                        let rep = mk_replay(&variant, &inst.call, &o, &kind);
                        ctx.violation(&class, &format!("{kind} accepted; shape {sc} queries {queries:?} degree {}", coeffs.len() - 1), rep);
                    }
                }
            }
        }
    }
}

/// A Byzantine FRI instance for a function of degree >= bound, honestly folded, with the last
/// layer sent in `mode`. Returns the instance and whether the queries can detect it (exact).
fn high_degree_instance(rng: &mut Rng, shape: &FriShape, coeffs: &[Felt], queries: &[u64], mode: &str) -> Option<(Instance, bool)> {
    let untruncated = mode == "untruncated";
    let full_len = (coeffs.len() + (1 << shape.sum_steps()) - 1) >> shape.sum_steps();
    let last_len = if untruncated { Some(full_len.max((1 << shape.log_last_bound) + 1)) } else { None };
    let mut inst = build_instance(rng, shape.clone(), coeffs.to_vec(), last_len, queries.to_vec());
    let n_inner = shape.steps.len() - 1;
    let full = inst.prover.coeffs[n_inner].clone();
    let mut pts: Vec<u64> = inst.q_idx.clone();
    let mut log_size = shape.log_input;
    for s in &shape.steps[1..] {
        pts = pts.iter().map(|q| q >> s).collect();
        pts.dedup();
        log_size -= s;
    }
    let w = models::subgroup_generator(log_size);
    let ys: Vec<Felt> = pts.iter().map(|q| w.pow(models::bitrev(*q, log_size) as u128)).collect();
    if mode.starts_with("fitted") {
        let cap = 1usize << shape.log_last_bound;
        let sel: Vec<Felt> = match mode {
            "fitted" => ys.iter().take(cap).cloned().collect(),
            "fitted-but-last" if ys.len() >= 2 && cap >= ys.len() - 1 => ys[..ys.len() - 1].to_vec(),
            "fitted-but-first" if ys.len() >= 2 && cap >= ys.len() - 1 => ys[1..].to_vec(),
            _ => return None,
        };
        if sel.len() > 32 || sel.is_empty() {
            return None;
        }
        let vals: Vec<Felt> = sel.iter().map(|y| models::eval_poly(&full, *y)).collect();
        let mut fitted = models::lagrange_interpolate(&sel, &vals);
        fitted.resize(1usize << shape.log_last_bound, Felt::ZERO);
        inst.call.last_layer = fitted;
    }
    let detectable = untruncated || ys.iter().any(|y| models::eval_poly(&full, *y) != models::eval_poly(&inst.call.last_layer, *y));
    Some((inst, detectable))
}

pub fn replay(rep: &Value) -> Result<(bool, String), String> {
    let call = FriCall::from_json(&rep["args"])?;
    let o = call.run_verify();
    let violated = match rep["expect"].as_str() {
        Some("not_ok") => o.is_accept(),
        Some("ok") => !o.is_accept(),
        Some("config-valid") => {
            let cfg = call.config.clone();
            let blow = cfg.log_input_size - cfg.fri_step_sizes.iter().fold(Felt::ZERO, |a, b| a + b) - cfg.log_last_layer_degree_bound;
            let nvf = cfg.inner_layers.first().map(|l| l.vector.n_verifier_friendly_commitment_layers).unwrap_or(Felt::ZERO);
            let vo = monitor::guarded(1_000_000, || cfg.validate(blow, nvf)).outcome;
            return Ok((!vo.is_accept(), vo.describe()));
        }
        Some("fold-identity") | Some("commit-points") | Some("commit-ok") => {
            // informational replays: re-run verify only
            !o.is_accept()
        }
        e => return Err(format!("unknown expectation {e:?}")),
    };
    Ok((violated, o.describe()))
}
